"""Interprocedural definite assignment of self attributes (R13.2, R15.4).

For a method m of concrete class C the summary is
  must     - attributes stored on every normal-return path of m,
  exposed  - attributes read at a point where they were not yet stored
             since m was entered (callees included).
Calls to self/super methods and to project functions receiving `self` are
resolved through the MRO and summarised recursively; literal string / None /
bool arguments are propagated as path facts (`_fit(fit_function="fit")`).
"""
import ast

from .index import ClassInfo
from .paths import MustAnalysis, St, Facts, Const, merge, describe


def fitted_name(a):
    return (a.endswith("_") or a.startswith("_")) and not (a.startswith("__") and a.endswith("__"))


class AttrMust(MustAnalysis):
    def __init__(self, project, ci, fi, init_facts=None, depth=0, stack=(), self_names=("self",)):
        super().__init__(fi.node)
        self.self_names = set(self_names)
        self.p = project
        self.ci = ci
        self.fi = fi
        self.depth = depth
        self.stack = stack + (id(fi.node),)
        self.init_facts = init_facts
        self.exposed = {}  # attr -> (lineno, file, qual, facts text, via)
        self.class_level = set()
        for k in project.mro(ci):
            if isinstance(k, ClassInfo):
                for st in k.node.body:
                    if isinstance(st, ast.Assign):
                        for t in st.targets:
                            if isinstance(t, ast.Name):
                                self.class_level.add(t.id)

    # ---- driver with initial facts
    def run(self):
        st = [St(self.init_facts or Facts(), frozenset())]
        out = self.block(self.fnode.body, st)
        if out:
            self.returns.append((None, out))
        return self

    def summary(self):
        must = None
        for (r, sts) in self.returns:
            for s in sts:
                tk = {t[2:] for t in s.tokens if t.startswith("a:")}
                must = tk if must is None else (must & tk)
        return (must or set()), self.exposed

    # ---- calls
    def _callee(self, call):
        f = call.func
        if isinstance(f, ast.Attribute):
            if isinstance(f.value, ast.Name) and f.value.id in self.self_names:
                return self.p.find_method(self.ci, f.attr)
            if isinstance(f.value, ast.Call) and isinstance(f.value.func, ast.Name) and f.value.func.id == "super" \
                    and self.fi.cls is not None:
                try:
                    return self.p.find_method(self.ci, f.attr, after=self.fi.cls)
                except ValueError:
                    return None
            # Class.method(self, ...)
            r = self.p.resolve_expr(self.fi.module, f)
            if r is not None and r[0] == "func" and call.args and isinstance(call.args[0], ast.Name) \
                    and call.args[0].id == "self":
                return r[1]
        elif isinstance(f, ast.Name):
            r = self.p.resolve_name(self.fi.module, f.id)
            if r is not None and r[0] == "func" and any(isinstance(a, ast.Name) and a.id in self.self_names for a in call.args):
                return r[1]
        return None

    def _call_summary(self, call, callee, states=()):
        if self.depth > 10 or id(callee.node) in self.stack:
            return set(), {}
        facts = Facts()
        a = callee.node.args
        pos = [x.arg for x in a.posonlyargs + a.args]
        kwonly = [x.arg for x in a.kwonlyargs]
        is_method = callee.cls is not None
        args = list(call.args)
        self_names = ["self"]
        if is_method:
            params = pos[1:] if pos else pos
            if isinstance(call.func, ast.Attribute) and not (
                    isinstance(call.func.value, ast.Name) and call.func.value.id in self.self_names) \
                    and not isinstance(call.func.value, ast.Call):
                args = args[1:]  # Class.method(self, ...)
            if pos:
                self_names = [pos[0]]
        else:
            params = pos
            # plain function receiving the object: that parameter aliases self
            self_names = []
            for i, v in enumerate(args):
                if isinstance(v, ast.Name) and v.id in self.self_names and i < len(params):
                    self_names.append(params[i])
            for k in call.keywords:
                if k.arg and isinstance(k.value, ast.Name) and k.value.id in self.self_names:
                    self_names.append(k.arg)
        bound = {}
        for i, v in enumerate(args):
            if i < len(params):
                bound[params[i]] = v
        for k in call.keywords:
            if k.arg is not None:
                bound[k.arg] = k.value
        # defaults of parameters that are not passed
        dmap = {}
        dpos = pos[len(pos) - len(a.defaults):]
        for n_, d in zip(dpos, a.defaults):
            dmap[n_] = d
        for n_, d in zip(kwonly, a.kw_defaults):
            if d is not None:
                dmap[n_] = d
        has_star = any(isinstance(x, ast.Starred) for x in call.args) or any(k.arg is None for k in call.keywords)
        for n_ in params + kwonly:
            if n_ not in bound and n_ in dmap and not has_star:
                bound[n_] = dmap[n_]
        for name, v in bound.items():
            c = None
            if isinstance(v, ast.Constant) and isinstance(v.value, (str, bool, int, type(None))):
                c = Const(v.value)
            elif isinstance(v, ast.Name) and states:
                vals = [s.facts.allowed.get(v.id) for s in states]
                if all(x is not None and len(x) == 1 for x in vals) and len({next(iter(x)) for x in vals}) == 1:
                    c = next(iter(vals[0]))
            elif isinstance(v, ast.expr) and states:
                from .paths import eval_test
                ts = {eval_test(v, s.facts) for s in states}
                if len(ts) == 1 and None not in ts and isinstance(v, (ast.Compare, ast.BoolOp, ast.UnaryOp)):
                    c = Const(ts.pop())
            if c is not None:
                facts.allowed[name] = frozenset([c])
        sub = AttrMust(self.p, self.ci, callee, init_facts=facts, depth=self.depth + 1, stack=self.stack,
                       self_names=self_names or ("self",))
        if not self_names:
            return set(), {}
        sub.run()
        return sub.summary()

    def _process_calls(self, expr, states):
        """Apply callee summaries for the self-calls inside expr; returns new states."""
        calls = []
        for n in ast.walk(expr):
            if isinstance(n, ast.Call):
                c = self._callee(n)
                if c is not None:
                    calls.append((n, c))
        if not calls:
            return states
        out = states
        for (n, c) in calls:
            must, exposed = self._call_summary(n, c, out)
            new = []
            for s in out:
                for attr, info in exposed.items():
                    if "a:" + attr not in s.tokens and attr not in self.exposed:
                        self.exposed[attr] = info[:4] + (info[4] + [f"{self.fi.qual}:{n.lineno}"],)
                new.append(St(s.facts, s.tokens | {"a:" + m for m in must}))
            out = merge(new)
        return out

    def _apply(self, stmt, states, pseudo=None):
        if pseudo is None and not isinstance(stmt, (ast.FunctionDef, ast.AsyncFunctionDef, ast.ClassDef)):
            for e in self._exprs_of(stmt):
                if e is not None:
                    states = self._process_calls(e, states)
        return super()._apply(stmt, states, pseudo)

    def stmt(self, s, states):
        hdr = None
        if isinstance(s, (ast.If, ast.While)):
            hdr = s.test
        elif isinstance(s, (ast.For, ast.AsyncFor)):
            hdr = s.iter
        elif isinstance(s, ast.Return):
            hdr = s.value
        if hdr is not None:
            for st in states:
                self.use(hdr, st, s)
            states = self._process_calls(hdr, states)
            if isinstance(s, ast.Return):
                self.returns.append((s, states))
                return []
        if isinstance(s, (ast.With, ast.AsyncWith)):
            for item in s.items:
                states = self._process_calls(item.context_expr, states)
        return super().stmt(s, states)

    def gen(self, stmt):
        out = []
        if isinstance(stmt, ast.Assign):
            for t in stmt.targets:
                for e in (t.elts if isinstance(t, (ast.Tuple, ast.List)) else [t]):
                    if isinstance(e, ast.Attribute) and isinstance(e.value, ast.Name) and e.value.id in self.self_names:
                        out.append("a:" + e.attr)
        elif isinstance(stmt, ast.AnnAssign) and stmt.value is not None:
            e = stmt.target
            if isinstance(e, ast.Attribute) and isinstance(e.value, ast.Name) and e.value.id in self.self_names:
                out.append("a:" + e.attr)
        return out

    def use(self, expr, state, stmt):
        if expr is None:
            return
        skip = set()
        for n in ast.walk(expr):
            if isinstance(n, (ast.Lambda,)):
                for x in ast.walk(n):
                    skip.add(id(x))
            if isinstance(n, ast.Call) and isinstance(n.func, ast.Attribute):
                # method reference self.m(...) is not a data read
                f = n.func
                if isinstance(f.value, ast.Name) and f.value.id in self.self_names and self.p.find_method(self.ci, f.attr):
                    skip.add(id(f))
        for n in ast.walk(expr):
            if id(n) in skip:
                continue
            if isinstance(n, ast.Attribute) and isinstance(n.ctx, ast.Load) and isinstance(n.value, ast.Name) \
                    and n.value.id in self.self_names and fitted_name(n.attr):
                a = n.attr
                if a in self.class_level or self.p.find_method(self.ci, a) is not None:
                    continue
                if "a:" + a not in state.tokens and a not in self.exposed:
                    self.exposed[a] = (getattr(n, "lineno", 0), self.fi.file, self.fi.qual, describe(state.facts), [])
            # getattr(self, "a_", default) reads the attribute of an earlier call just the same
            if isinstance(n, ast.Call) and isinstance(n.func, ast.Name) and n.func.id == "getattr" and len(n.args) >= 2 \
                    and isinstance(n.args[0], ast.Name) and n.args[0].id in self.self_names \
                    and isinstance(n.args[1], ast.Constant) and isinstance(n.args[1].value, str) \
                    and fitted_name(n.args[1].value):
                a = n.args[1].value
                if a in self.class_level or self.p.find_method(self.ci, a) is not None:
                    continue
                if "a:" + a not in state.tokens and a not in self.exposed:
                    self.exposed[a] = (getattr(n, "lineno", 0), self.fi.file, self.fi.qual, describe(state.facts), [])
