"""E1 - project index: modules, imports, classes, MRO, constructor parameters.

Pure stdlib.  Nothing of the analysed package is imported or executed.
"""
import ast
import os
import sys


class AnalysisError(Exception):
    """The analysis itself cannot proceed (vanished anchor, parse failure...)."""


PKG = "skactiveml"


class FuncInfo:
    __slots__ = ("name", "node", "module", "cls", "qual", "parent")

    def __init__(self, name, node, module, cls=None, parent=None):
        self.name = name
        self.node = node
        self.module = module
        self.cls = cls  # ClassInfo or None
        self.parent = parent  # enclosing FuncInfo for nested defs
        if cls is not None:
            self.qual = f"{cls.name}.{name}"
        else:
            self.qual = name

    @property
    def file(self):
        return self.module.relpath

    def params(self):
        a = self.node.args
        out = [x.arg for x in a.posonlyargs + a.args]
        return out

    def all_param_names(self):
        a = self.node.args
        out = [x.arg for x in a.posonlyargs + a.args + a.kwonlyargs]
        if a.vararg:
            out.append(a.vararg.arg)
        if a.kwarg:
            out.append(a.kwarg.arg)
        return out

    def defaults(self):
        """name -> default expr node (for params that have one)."""
        a = self.node.args
        pos = a.posonlyargs + a.args
        out = {}
        for p, d in zip(pos[len(pos) - len(a.defaults):], a.defaults):
            out[p.arg] = d
        for p, d in zip(a.kwonlyargs, a.kw_defaults):
            if d is not None:
                out[p.arg] = d
        return out

    def __repr__(self):
        return f"<Func {self.module.name}:{self.qual}>"


class ClassInfo:
    def __init__(self, name, node, module):
        self.name = name
        self.node = node
        self.module = module
        self.methods = {}
        self.base_exprs = list(node.bases)
        self.bases = []  # resolved: ClassInfo or str (external dotted)
        self._mro = None
        for st in node.body:
            if isinstance(st, (ast.FunctionDef, ast.AsyncFunctionDef)):
                self.methods[st.name] = FuncInfo(st.name, st, module, self)

    @property
    def file(self):
        return self.module.relpath

    def __repr__(self):
        return f"<Class {self.name}>"


class ModuleInfo:
    def __init__(self, name, path, relpath, tree, src, is_pkg):
        self.name = name
        self.path = path
        self.relpath = relpath
        self.tree = tree
        self.src = src
        self.is_pkg = is_pkg
        self.imports = {}  # local name -> ("mod", modname) | ("sym", modname, symbol)
        self.functions = {}
        self.classes = {}
        self.assigns = {}  # top-level NAME = expr
        self.all = None


class Project:
    def __init__(self, root=None):
        root = root or os.environ.get("VERIF_REPO", "/repo")
        self.root = root
        self.pkgdir = os.path.join(root, PKG)
        if not os.path.isdir(self.pkgdir):
            raise AnalysisError(f"package directory not found: {self.pkgdir}")
        self.modules = {}
        self.classes = {}  # simple name -> ClassInfo (unique names asserted)
        self._load()
        self._resolve_bases()

    # ------------------------------------------------------------------
    def _load(self):
        for dp, dns, fns in os.walk(self.pkgdir):
            dns[:] = sorted(d for d in dns if d not in ("tests", "__pycache__"))
            for fn in sorted(fns):
                if not fn.endswith(".py"):
                    continue
                path = os.path.join(dp, fn)
                rel = os.path.relpath(path, self.root)
                parts = rel[:-3].split(os.sep)
                is_pkg = parts[-1] == "__init__"
                if is_pkg:
                    parts = parts[:-1]
                name = ".".join(parts)
                try:
                    with open(path, encoding="utf-8") as fh:
                        src = fh.read()
                    tree = ast.parse(src, filename=path)
                except (SyntaxError, OSError, UnicodeDecodeError) as e:
                    raise AnalysisError(f"cannot parse {rel}: {e}")
                if rel.replace(os.sep, "/").endswith("utils/_selection.py"):
                    # normal form of the selection primitives: a private module-level helper whose value is assigned
                    # (`a, b = _helper(x, y)`) is beta-reduced into its caller, so that a selection loop extracted
                    # into a helper is analysed as the loop it is
                    _inline_assigned_helper_calls(tree)
                m = ModuleInfo(name, path, rel, tree, src, is_pkg)
                self.modules[name] = m
                self._index_module(m)

    def _index_module(self, m):
        for st in m.tree.body:
            self._index_stmt(m, st)

    def _index_stmt(self, m, st):
        if isinstance(st, ast.Import):
            for a in st.names:
                if a.asname:
                    m.imports[a.asname] = ("mod", a.name)
                else:
                    m.imports[a.name.split(".")[0]] = ("mod", a.name.split(".")[0])
        elif isinstance(st, ast.ImportFrom):
            base = self._abs_module(m, st.module, st.level)
            for a in st.names:
                if a.name == "*":
                    continue
                m.imports[a.asname or a.name] = ("sym", base, a.name)
        elif isinstance(st, (ast.FunctionDef, ast.AsyncFunctionDef)):
            m.functions[st.name] = FuncInfo(st.name, st, m)
        elif isinstance(st, ast.ClassDef):
            ci = ClassInfo(st.name, st, m)
            m.classes[st.name] = ci
            if st.name in self.classes:
                raise AnalysisError(
                    f"duplicate class name {st.name} in {m.relpath} and "
                    f"{self.classes[st.name].file}"
                )
            self.classes[st.name] = ci
        elif isinstance(st, ast.Assign):
            for t in st.targets:
                if isinstance(t, ast.Name):
                    m.assigns[t.id] = st.value
                    if t.id == "__all__" and isinstance(
                        st.value, (ast.List, ast.Tuple)
                    ):
                        m.all = [
                            e.value
                            for e in st.value.elts
                            if isinstance(e, ast.Constant)
                        ]
        elif isinstance(st, (ast.If, ast.Try)):
            # e.g. optional imports guarded by try/except
            for sub in ast.iter_child_nodes(st):
                if isinstance(sub, ast.stmt):
                    self._index_stmt(m, sub)
                elif isinstance(sub, ast.ExceptHandler):
                    for s2 in sub.body:
                        self._index_stmt(m, s2)

    def _abs_module(self, m, module, level):
        if level == 0:
            return module or ""
        parts = m.name.split(".")
        if not m.is_pkg:
            parts = parts[:-1]
        if level > 1:
            parts = parts[: len(parts) - (level - 1)]
        if module:
            parts = parts + module.split(".")
        return ".".join(parts)

    # ------------------------------------------------------------------
    def resolve_symbol(self, modname, sym, _seen=None):
        """Resolve symbol `sym` of module `modname` to ("class", ClassInfo) |
        ("func", FuncInfo) | ("const", ModuleInfo, expr) | ("module", ModuleInfo)
        | ("ext", dotted)."""
        _seen = _seen or set()
        key = (modname, sym)
        if key in _seen:
            return ("ext", f"{modname}.{sym}")
        _seen.add(key)
        m = self.modules.get(modname)
        if m is None:
            sub = self.modules.get(f"{modname}.{sym}")
            if sub is not None:
                return ("module", sub)
            return ("ext", f"{modname}.{sym}")
        if sym in m.classes:
            return ("class", m.classes[sym])
        if sym in m.functions:
            return ("func", m.functions[sym])
        if sym in m.imports:
            imp = m.imports[sym]
            if imp[0] == "sym":
                return self.resolve_symbol(imp[1], imp[2], _seen)
            if imp[1] in self.modules:
                return ("module", self.modules[imp[1]])
            return ("ext", imp[1])
        if sym in m.assigns:
            return ("const", m, m.assigns[sym])
        sub = self.modules.get(f"{modname}.{sym}")
        if sub is not None:
            return ("module", sub)
        return ("ext", f"{modname}.{sym}")

    def resolve_name(self, module, name):
        """Resolve a bare name used inside `module`."""
        if name in module.classes:
            return ("class", module.classes[name])
        if name in module.functions:
            return ("func", module.functions[name])
        if name in module.imports:
            imp = module.imports[name]
            if imp[0] == "sym":
                return self.resolve_symbol(imp[1], imp[2])
            if imp[1] in self.modules:
                return ("module", self.modules[imp[1]])
            return ("ext", imp[1])
        if name in module.assigns:
            return ("const", module, module.assigns[name])
        return None

    def resolve_expr(self, module, expr):
        """Resolve Name / dotted Attribute chains to a project or external
        symbol.  Returns same tuples as resolve_symbol or None."""
        if isinstance(expr, ast.Name):
            return self.resolve_name(module, expr.id)
        if isinstance(expr, ast.Attribute):
            base = self.resolve_expr(module, expr.value)
            if base is None:
                return None
            if base[0] == "module":
                return self.resolve_symbol(base[1].name, expr.attr)
            if base[0] == "ext":
                return ("ext", f"{base[1]}.{expr.attr}")
            if base[0] == "class":
                ci = base[1]
                r = self.find_method(ci, expr.attr)
                if r is not None:
                    return ("func", r)
            return None
        return None

    # ------------------------------------------------------------------
    def _resolve_bases(self):
        for ci in self.classes.values():
            for b in ci.base_exprs:
                r = self.resolve_expr(ci.module, b)
                if r is not None and r[0] == "class":
                    ci.bases.append(r[1])
                elif r is not None and r[0] == "ext":
                    ci.bases.append(r[1])
                else:
                    ci.bases.append(ast.unparse(b))

    def mro(self, ci):
        if ci._mro is not None:
            return ci._mro
        seqs = []
        for b in ci.bases:
            if isinstance(b, ClassInfo):
                seqs.append(list(self.mro(b)))
            else:
                seqs.append([b])
        seqs.append(list(ci.bases))
        res = [ci]
        seqs = [s for s in seqs if s]
        while seqs:
            for s in seqs:
                cand = s[0]
                if not any(cand in t[1:] for t in seqs):
                    break
            else:
                raise AnalysisError(f"inconsistent MRO for {ci.name}")
            res.append(cand)
            seqs = [[x for x in s if x is not cand and x != cand] for s in seqs]
            seqs = [s for s in seqs if s]
        ci._mro = res
        return res

    def find_method(self, ci, name, after=None):
        """Resolve method `name` on concrete class `ci` (after owner `after`
        in the MRO when given: super() dispatch)."""
        mro = self.mro(ci)
        start = 0
        if after is not None:
            start = mro.index(after) + 1
        for k in mro[start:]:
            if isinstance(k, ClassInfo) and name in k.methods:
                return k.methods[name]
        return None

    def ext_bases(self, ci):
        return [b for b in self.mro(ci) if not isinstance(b, ClassInfo)]

    def is_subclass(self, ci, basename):
        for k in self.mro(ci):
            if isinstance(k, ClassInfo):
                if k.name == basename:
                    return True
            elif str(k).split(".")[-1] == basename:
                return True
        return False

    def subclasses(self, basename):
        return [c for c in self.classes.values() if self.is_subclass(c, basename)]

    def ctor_params(self, ci):
        """Union of explicit __init__ parameters along the MRO (sklearn's
        get_params contract is the concrete __init__, but parents' stores
        `self.p = p` are parameters too)."""
        out = []
        for k in self.mro(ci):
            if isinstance(k, ClassInfo) and "__init__" in k.methods:
                f = k.methods["__init__"]
                a = f.node.args
                for x in a.posonlyargs + a.args + a.kwonlyargs:
                    if x.arg != "self" and x.arg not in out:
                        out.append(x.arg)
        return out

    def init_stored_attrs(self, ci):
        """Attributes stored by any __init__ along the MRO."""
        out = set()
        for k in self.mro(ci):
            if isinstance(k, ClassInfo) and "__init__" in k.methods:
                for n in ast.walk(k.methods["__init__"].node):
                    if (
                        isinstance(n, ast.Attribute)
                        and isinstance(n.ctx, ast.Store)
                        and isinstance(n.value, ast.Name)
                        and n.value.id == "self"
                    ):
                        out.add(n.attr)
        return out

    def exported(self, modname):
        m = self.modules.get(modname)
        if m is None or m.all is None:
            raise AnalysisError(f"module {modname} or its __all__ vanished")
        out = []
        for s in m.all:
            r = self.resolve_symbol(modname, s)
            out.append((s, r))
        return out

    def exported_classes(self, modname):
        out = []
        for s, r in self.exported(modname):
            if r[0] == "class":
                out.append(r[1])
        return out

    def all_functions(self):
        """Every FuncInfo: module-level functions and methods."""
        for m in self.modules.values():
            for f in m.functions.values():
                yield f
            for c in m.classes.values():
                for f in c.methods.values():
                    yield f

    def get_class(self, name):
        ci = self.classes.get(name)
        if ci is None:
            raise AnalysisError(f"anchor class vanished: {name}")
        return ci

    def get_func(self, modname, name):
        m = self.modules.get(modname)
        if m is None or name not in m.functions:
            raise AnalysisError(f"anchor function vanished: {modname}.{name}")
        return m.functions[name]

    def get_method(self, cname, mname):
        ci = self.get_class(cname)
        f = self.find_method(ci, mname)
        if f is None:
            raise AnalysisError(f"anchor method vanished: {cname}.{mname}")
        return f

    def inventory(self):
        nf = sum(1 for _ in self.all_functions())
        return {
            "modules": len(self.modules),
            "classes": len(self.classes),
            "functions": nf,
        }


def loc(fi_or_mod, node):
    m = fi_or_mod.module if hasattr(fi_or_mod, "module") else fi_or_mod
    return f"{m.relpath}:{getattr(node, 'lineno', 0)}"


if __name__ == "__main__":
    p = Project(sys.argv[1] if len(sys.argv) > 1 else None)
    print(p.inventory())
    for mod in (
        "skactiveml.pool",
        "skactiveml.stream",
        "skactiveml.stream.budgetmanager",
        "skactiveml.classifier",
        "skactiveml.regressor",
        "skactiveml.pool.multiannotator",
        "skactiveml.classifier.multiannotator",
    ):
        cs = p.exported_classes(mod)
        print(mod, len(cs), [c.name for c in cs])
    for c in ("ValueOfInformationEER", "BatchBALD", "SklearnNormalRegressor"):
        ci = p.get_class(c)
        print(c, [getattr(k, "name", k) for k in p.mro(ci)], p.ctor_params(ci))


def _inline_assigned_helper_calls(module):
    import copy as _copy
    helpers = {f.name: f for f in module.body if isinstance(f, ast.FunctionDef) and f.name.startswith("_")}

    def inlinable(h):
        body = [b for i, b in enumerate(h.body) if not (i == 0 and isinstance(b, ast.Expr) and isinstance(b.value, ast.Constant))]
        if not body or not isinstance(body[-1], ast.Return) or body[-1].value is None:
            return None
        for b in body[:-1]:
            for x in ast.walk(b):
                if isinstance(x, (ast.Return, ast.Yield, ast.YieldFrom, ast.FunctionDef, ast.Lambda, ast.Global, ast.Nonlocal)):
                    return None
        if h.args.vararg or h.args.kwarg or h.decorator_list:
            return None
        return body

    def rewrite(stmts, owner_name):
        out = []
        for st in stmts:
            for fld in ("body", "orelse", "finalbody"):
                blk = getattr(st, fld, None)
                if isinstance(blk, list) and blk and isinstance(blk[0], ast.stmt):
                    setattr(st, fld, rewrite(blk, owner_name))
            if isinstance(st, ast.Assign) and isinstance(st.value, ast.Call) and isinstance(st.value.func, ast.Name) \
                    and st.value.func.id in helpers and st.value.func.id != owner_name:
                h = helpers[st.value.func.id]
                body = inlinable(h)
                call = st.value
                params = [a.arg for a in h.args.posonlyargs + h.args.args]
                ok = body is not None and len(call.args) <= len(params) and not any(isinstance(a, ast.Starred) for a in call.args) \
                    and all(k.arg in params for k in call.keywords)
                if ok:
                    bind = dict(zip(params, call.args))
                    for k in call.keywords:
                        bind[k.arg] = k.value
                    defaults = h.args.defaults
                    for prm, d in zip(params[len(params) - len(defaults):], defaults):
                        bind.setdefault(prm, d)
                    stored = {x.id for b in body for x in ast.walk(b) if isinstance(x, ast.Name) and isinstance(x.ctx, ast.Store)}
                    if set(params) - set(bind) or any(not isinstance(bind[q], ast.Name) for q in params if q in stored) \
                            or any(not isinstance(v, (ast.Name, ast.Constant, ast.Attribute)) for v in bind.values()):
                        ok = False
                if ok:
                    class Sub(ast.NodeTransformer):
                        def visit_Name(self, n):
                            if n.id in bind:
                                r = _copy.deepcopy(bind[n.id])
                                if isinstance(r, ast.Name):
                                    r.ctx = n.ctx
                                return ast.copy_location(r, n)
                            return n
                    new_body = [Sub().visit(_copy.deepcopy(b)) for b in body]
                    for b in new_body[:-1]:
                        for x in ast.walk(b):
                            if hasattr(x, "lineno"):
                                x.lineno = st.lineno
                                x.end_lineno = st.lineno
                        out.append(b)
                    fin = ast.Assign(targets=st.targets, value=new_body[-1].value)
                    ast.copy_location(fin, st)
                    ast.fix_missing_locations(fin)
                    out.append(fin)
                    continue
            out.append(st)
        return out

    for f in module.body:
        if isinstance(f, ast.FunctionDef):
            f.body = rewrite(f.body, f.name)
