"""E9 - obligations, known findings, evidence, exit protocol."""
import ast
import json
import os
import sys
import time

from .index import AnalysisError

VERIF = os.path.dirname(os.path.dirname(os.path.abspath(__file__)))
KNOWN_FILE = os.path.join(VERIF, "known_findings.jsonl")
EVIDENCE_DIR = os.path.join(VERIF, "evidence")


KEEP_NAMES = {"self", "np", "numpy", "cls", "super", "True", "False", "None"}


def canon(node):
    """Copy of `node` with variable names replaced by v1, v2, ... in order of
    first appearance (callee names, attributes and keyword names are kept), so
    that obligation keys survive a consistent renaming of locals."""
    import copy
    t = copy.deepcopy(node)
    callee_ids = set()
    for n in ast.walk(t):
        if isinstance(n, ast.Call) and isinstance(n.func, ast.Name):
            callee_ids.add(id(n.func))
    mapping = {}

    class R(ast.NodeTransformer):
        def visit_Name(self, n):
            if id(n) in callee_ids or n.id in KEEP_NAMES:
                return n
            if n.id not in mapping:
                mapping[n.id] = f"v{len(mapping) + 1}"
            return ast.copy_location(ast.Name(id=mapping[n.id], ctx=n.ctx), n)

        def visit_arg(self, n):
            if n.arg not in mapping and n.arg not in KEEP_NAMES:
                mapping[n.arg] = f"v{len(mapping) + 1}"
            n.arg = mapping.get(n.arg, n.arg)
            return n
    # visit in source order so numbering is deterministic
    return R().visit(t)


def norm_stmt(node, limit=140, canonical=True):
    """Normalised source text of a statement/expression (no line numbers,
    formatting independent, local names canonicalised)."""
    try:
        s = ast.unparse(canon(node) if canonical else node)
    except Exception:
        s = "?"
    s = " ".join(s.split())
    if isinstance(node, (ast.For, ast.While, ast.If, ast.With, ast.Try)):
        s = s.split(":")[0] if ":" in s else s
    return s[:limit]


def site_id(node, limit=90):
    """Readable + unique id of a call site: leading text and a digest of the
    full normalised text (line-number independent)."""
    import hashlib
    try:
        full = " ".join(ast.unparse(canon(node)).split())
    except Exception:
        full = "?"
    if len(full) <= limit:
        return full
    return full[:limit] + "...#" + hashlib.sha1(full.encode()).hexdigest()[:6]


class Obligation:
    __slots__ = ("rule", "entity", "construct", "loc", "ok", "detail",
                 "nontrivial", "path")

    def __init__(self, rule, entity, construct, loc, ok, detail="",
                 nontrivial=True, path=None):
        self.rule = rule
        self.entity = entity
        self.construct = construct
        self.loc = loc
        self.ok = ok
        self.detail = detail
        self.nontrivial = nontrivial
        self.path = path or []

    def key(self):
        return (self.rule, self.entity, self.construct)

    def as_dict(self):
        d = {
            "rule": self.rule,
            "entity": self.entity,
            "construct": self.construct,
            "loc": self.loc,
            "verdict": "discharged" if self.ok else "violated",
        }
        if self.detail:
            d["detail"] = self.detail
        if self.path:
            d["path"] = self.path
        return d


class Report:
    def __init__(self, prop):
        self.prop = prop
        self.obligations = []
        self._keys = set()
        self._sites = {}
        self.rules = {}  # rule id -> text
        self.assumptions = []
        self.tables = {}
        self.notes = []
        self.floors = {}
        self.selftest = None
        self.analysed = {}

    def rule(self, rid, text, floor=0):
        self.rules[rid] = text
        self.floors[rid] = floor

    def add(self, rule, entity, construct, loc, ok, detail="",
            nontrivial=True, path=None):
        # distinct source sites whose canonical text coincides are numbered
        # in order of appearance (stable under renaming and line shifts)
        base = (rule, entity, construct)
        sites = self._sites.setdefault(base, [])
        if loc not in sites:
            sites.append(loc)
        n = sites.index(loc)
        if n > 0:
            construct = f"{construct} #{n + 1}"
        ob = Obligation(rule, entity, construct, loc, ok, detail, nontrivial,
                        path)
        k = ob.key()
        if k in self._keys:
            # keep the failing verdict if duplicates disagree
            for o in self.obligations:
                if o.key() == k and o.ok and not ok:
                    o.ok = False
                    o.detail = detail
                    o.loc = loc
                    o.path = path or []
            return
        self._keys.add(k)
        self.obligations.append(ob)

    def count(self, rule):
        return sum(1 for o in self.obligations if o.rule == rule)


def load_known():
    out = []
    if os.path.exists(KNOWN_FILE):
        with open(KNOWN_FILE) as fh:
            for line in fh:
                line = line.strip()
                if not line or line.startswith("#"):
                    continue
                out.append(json.loads(line))
    return out


def finish(report, tier, seed, t0, extra_cov=None):
    """Apply floors, match known findings, write evidence, print the verdict
    lines and return the exit code."""
    prop = report.prop
    # instance floors: a rule matching fewer sites than confirmed by hand is
    # an analysis failure, not a pass
    floor_errors = []
    for rid, floor in report.floors.items():
        n = report.count(rid)
        if n < floor:
            floor_errors.append(
                f"{prop} rule {rid}: {n} obligations found, floor is {floor} "
                f"(an anchor vanished or the rule no longer matches)"
            )
    known = [k for k in load_known() if k.get("property") == prop]
    open_known = [k for k in known if k.get("status", "open") == "open"]
    viol = [o for o in report.obligations if not o.ok]
    new_viol = []
    known_hit = []
    for o in viol:
        hit = None
        for k in open_known:
            if k["rule"] == o.rule and k["entity"] == o.entity and \
                    k["construct"] == o.construct:
                hit = k
                break
        if hit is not None:
            known_hit.append((o, hit))
        else:
            new_viol.append(o)
    if floor_errors and not new_viol:
        # nothing else was reported: a rule that lost its instances must not pass vacuously
        raise AnalysisError("; ".join(floor_errors))
    for fe in floor_errors:
        print("NOTE: " + fe + " - reported together with the violation(s) below")
    for o, k in known_hit:
        print(f"KNOWN-FINDING: property={prop} {o.rule} {o.entity} :: "
              f"{o.construct} [{o.loc}] {k.get('what', '')}".rstrip())
    os.makedirs(EVIDENCE_DIR, exist_ok=True)
    replay = os.path.join(EVIDENCE_DIR, f"{prop}.violations.json")
    if new_viol:
        with open(replay, "w") as fh:
            json.dump([o.as_dict() for o in new_viol], fh, indent=1)
    elif os.path.exists(replay):
        os.remove(replay)
    per_rule = {}
    for o in report.obligations:
        d = per_rule.setdefault(o.rule, {"obligations": 0, "discharged": 0})
        d["obligations"] += 1
        d["discharged"] += 1 if o.ok else 0
    samples = []
    seen_rules = {}
    for o in report.obligations:
        c = seen_rules.get(o.rule, 0)
        if c < 4 or not o.ok:
            samples.append(o.as_dict())
            seen_rules[o.rule] = c + 1
    samples = samples[:80]
    nontrivial = len({o.key() for o in report.obligations if o.nontrivial})
    cov = {
        "explanation": (
            "Static analysis of the current working tree of the package "
            "(no code executed): every obligation is a (rule, entity, "
            "construct) triple decided from the syntax tree / abstract "
            "interpretation; see rules."
        ),
        "obligations": len(report.obligations),
        "discharged": sum(1 for o in report.obligations if o.ok),
        "known_findings_matched": len(known_hit),
        "evaluations": len(report.obligations),
        "distinct_nontrivial": nontrivial,
        "rule": (
            "one case per (rule id, entity, construct) obligation; "
            "non-trivial = discharge needed a dataflow / path / alias fact "
            "rather than a presence test"
        ),
        "rules": report.rules,
        "per_rule": per_rule,
        "floors": report.floors,
        "samples": samples,
        "analysed": report.analysed,
        "tables": report.tables,
        "notes": report.notes,
        "checker_cmd": f"python3 sa/run.py {prop} --tier {tier}",
        "trusted_base": [
            "CPython ast parser",
            "the alias/effect tables printed under coverage.tables",
        ],
    }
    if report.selftest is not None:
        cov["selftest"] = report.selftest
    if extra_cov:
        cov.update(extra_cov)
    ev = {
        "property_id": prop,
        "tier": tier,
        "seed": seed,
        "level": "other",
        "coverage": cov,
        "assumptions": report.assumptions,
        "wall_s": round(time.time() - t0, 3),
        "violations": len(new_viol),
    }
    with open(os.path.join(EVIDENCE_DIR, f"{prop}.json"), "w") as fh:
        json.dump(ev, fh, indent=1, default=str)
    print(f"{prop}: {len(report.obligations)} obligations, "
          f"{cov['discharged']} discharged, {len(known_hit)} known findings, "
          f"{len(new_viol)} new violations "
          f"[{', '.join(f'{r}:{d['obligations']}' for r, d in sorted(per_rule.items()))}]")
    if new_viol:
        for o in new_viol[:40]:
            print(f"  violated {o.rule} {o.entity} :: {o.construct} [{o.loc}] {o.detail}")
            if o.path:
                print("     path: " + " > ".join(o.path))
        print(f"VIOLATION property={prop} replay={replay}")
        return 1
    return 0
