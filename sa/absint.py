"""E5/E6/E7 - interprocedural abstract interpreter.

A syntax-directed, flow-sensitive (path-insensitive except for constant
propagation) walk over function bodies that inlines resolvable project
callees.  It tracks for every value

* ``origins``  - which caller-visible objects it MAY be (alias / view of):
                 ("self", path), ("p:<param>", path), ("obj:<site>", path)
* ``deps``     - what it was computed from (origins + taints such as
                 "global_rng"),
* ``const``    - a literal value when known (constant propagation),
* ``items``    - contents of dict literals (for **kwargs provenance),
* ``cls/ref``  - class of constructed objects / callable references,

and emits *events* (attribute stores, in-place mutations, random draws,
calls) with the call path and the guarding conditions.  Rules are phrased
over the event list.  No code of the analysed package is executed.
"""
import ast

from .index import ClassInfo, FuncInfo, AnalysisError

NOCONST = type("NoConst", (), {"__repr__": lambda s: "NOCONST"})()
FS = frozenset

# ----------------------------------------------------------------------------
# Tables (printed into the evidence by the rules that use them)
# ----------------------------------------------------------------------------
# external functions returning (possibly) their first argument / a view of it
ALIAS_FUNCS = {
    "numpy.asarray", "numpy.asanyarray", "numpy.ascontiguousarray",
    "numpy.asfortranarray", "numpy.atleast_1d", "numpy.atleast_2d",
    "numpy.atleast_3d", "numpy.ravel", "numpy.reshape", "numpy.squeeze",
    "numpy.transpose", "numpy.swapaxes", "numpy.expand_dims",
    "numpy.broadcast_to", "numpy.moveaxis", "numpy.diagonal", "numpy.real",
    "numpy.nan_to_num_inplace",
    "sklearn.utils.check_array", "sklearn.utils.validation.check_array",
    "sklearn.utils.column_or_1d", "sklearn.utils.validation.column_or_1d",
    "sklearn.utils.as_float_array", "sklearn.utils.validation.as_float_array",
    "sklearn.utils.validation.check_random_state",
    "sklearn.utils.check_random_state",
    "joblib.delayed",
}
# external functions returning a tuple of (possibly) their arguments
ALIAS_TUPLE_FUNCS = {
    "sklearn.utils.check_X_y", "sklearn.utils.validation.check_X_y",
}
# external functions mutating their first argument
INPLACE_FUNCS = {
    "numpy.put", "numpy.place", "numpy.copyto", "numpy.fill_diagonal",
    "numpy.putmask", "numpy.put_along_axis", "numpy.random.shuffle",
    "random.shuffle", "numpy.add.at", "numpy.subtract.at",
    "numpy.multiply.at", "numpy.maximum.at", "numpy.minimum.at",
    "heapq.heappush", "heapq.heappop", "heapq.heapify", "bisect.insort",
}
# methods that return (a view of) their receiver
ALIAS_METHODS = {
    "reshape", "ravel", "view", "squeeze", "swapaxes", "transpose",
    "fit", "partial_fit", "set_params", "set_output", "__enter__",
}
# methods mutating their receiver in place
INPLACE_METHODS = {
    "sort", "fill", "put", "resize", "append", "extend", "pop", "update",
    "setdefault", "clear", "insert", "remove", "popleft", "appendleft",
    "extendleft", "itemset", "partition", "setflags", "fit", "partial_fit",
    "set_params", "set_state", "seed", "popitem", "add", "discard",
    "reverse", "rotate", "__setitem__", "__delitem__", "setfield",
    "byteswap_inplace", "fit_transform", "fit_predict", "shuffle",
}
# methods that draw from a numpy RandomState / Generator receiver
DRAW_METHODS_STRICT = {
    "random_sample", "randint", "randn", "rand", "standard_gamma",
    "permutation", "shuffle", "choice", "normal", "uniform",
    "multivariate_normal", "standard_normal", "dirichlet", "multinomial",
    "binomial", "beta", "gamma", "exponential", "poisson", "integers",
    "random_integers", "ranf", "bytes", "laplace", "lognormal",
}
DRAW_METHODS_LOOSE = {"random", "sample"}  # only on a value known to be a rng
# constructor options of external estimators that make fit work in place on its input
NOCOPY_OPTIONS = ("copy_x", "copy_X", "copy")
# process-global draws
GLOBAL_DRAW_PREFIXES = ("numpy.random.", "random.")
GLOBAL_RNG_NONDRAW = {
    "numpy.random.RandomState", "numpy.random.default_rng",
    "numpy.random.get_state", "numpy.random.Generator",
    "numpy.random.SeedSequence", "numpy.random.mtrand", "numpy.random.PCG64",
    "numpy.random.MT19937", "random.Random",
}
RNG_CTORS = {"numpy.random.RandomState", "numpy.random.default_rng",
             "random.Random", "numpy.random.Generator"}
FRESH_COPY_FUNCS = {
    "copy.copy", "copy.deepcopy", "sklearn.base.clone", "sklearn.clone",
    "numpy.copy", "numpy.array",
}
# external estimator classes whose fit* draws from `random_state`
# (global generator when it is None)
EXT_DRAWING_CLASSES = {
    "KMeans", "MiniBatchKMeans", "BisectingKMeans", "GaussianMixture",
    "BayesianGaussianMixture", "SpectralClustering", "MLPClassifier",
    "MLPRegressor", "RandomForestClassifier", "RandomForestRegressor",
    "ExtraTreesClassifier", "ExtraTreesRegressor", "BaggingClassifier",
    "BaggingRegressor", "SGDClassifier", "SGDRegressor", "Perceptron",
    "DecisionTreeClassifier", "DecisionTreeRegressor", "MDS", "TSNE",
    "GradientBoostingClassifier", "GradientBoostingRegressor",
    "AdaBoostClassifier", "AdaBoostRegressor", "LogisticRegression",
    "GaussianProcessClassifier", "GaussianProcessRegressor",
}
EXT_FIT_METHODS = {"fit", "fit_predict", "fit_transform", "partial_fit"}


def is_visible_root(root):
    return root == "self" or root.startswith("p:")


# ----------------------------------------------------------------------------
class AV:
    __slots__ = ("origins", "deps", "const", "elts", "cls", "ref", "items",
                 "must_keys", "arr", "ckw", "rng", "nn", "eor")

    def __init__(self, origins=FS(), deps=FS(), const=NOCONST, elts=None,
                 cls=FS(), ref=FS(), items=None, must_keys=FS(), arr=False,
                 ckw=None, rng=False, nn=False, eor=FS()):
        self.nn = nn
        self.eor = eor
        self.origins = origins
        self.deps = deps | origins
        self.const = const
        self.elts = elts
        self.cls = cls
        self.ref = ref
        self.items = items
        self.must_keys = must_keys
        self.arr = arr
        self.ckw = ckw
        self.rng = rng

    def replace(self, **kw):
        d = {k: getattr(self, k) for k in AV.__slots__}
        d.update(kw)
        return AV(**d)

    def sig(self):
        return (
            self.origins,
            self.deps,
            self.const if _hashable(self.const) else "?",
            tuple(e.sig() for e in self.elts) if self.elts is not None else None,
            self.cls,
            FS(_refkey(r) for r in self.ref),
            tuple(sorted((k, v.sig()) for k, v in self.items.items()))
            if self.items is not None else None,
            self.must_keys,
            self.arr,
            self.ckw.sig() if self.ckw is not None else None,
            self.rng,
            self.nn,
            self.eor,
        )

    def __repr__(self):
        bits = []
        if self.origins:
            bits.append("o=" + ",".join(fmt_origin(o) for o in sorted(self.origins, key=str)))
        if self.const is not NOCONST:
            bits.append(f"const={self.const!r}")
        if self.cls:
            bits.append("cls=" + ",".join(sorted(self.cls)))
        if self.items is not None:
            bits.append("items=" + ",".join(sorted(self.items)))
        if self.rng:
            bits.append("rng")
        return "AV(" + " ".join(bits) + ")"


def _hashable(x):
    try:
        hash(x)
        return True
    except TypeError:
        return False


def _refkey(r):
    if r[0] == "func":
        return ("func", id(r[1]))
    if r[0] in ("lambda", "nested"):
        return (r[0], id(r[1]))
    if r[0] == "bound":
        return ("bound", r[1].sig(), r[2])
    return r


def fmt_origin(o):
    root, path = o
    return root + ("." + ".".join(path) if path else "")


FRESH = AV()


ARR_MARK = ("@arrelem", ())   # marker inside `eor`: the container's elements are arrays (appended array values)


def elems_are_arrays(av):
    return ARR_MARK in av.eor


def elem_origins(av):
    """Origins of the elements of container `av` (objects, not array cells)."""
    out = set(av.eor)
    out.discard(ARR_MARK)
    if not av.arr:
        for (r, pth) in av.origins:
            out.add((r, pth + ("[]",)))
    if av.elts:
        for x in av.elts:
            out |= x.origins
    return FS(out)


def join(a, b):
    if a is b:
        return a
    if a is None:
        return b
    if b is None:
        return a
    elts = None
    if a.elts is not None and b.elts is not None and len(a.elts) == len(b.elts):
        elts = tuple(join(x, y) for x, y in zip(a.elts, b.elts))
    items = None
    if a.items is not None and b.items is not None:
        items = {}
        for k in set(a.items) | set(b.items):
            items[k] = join(a.items.get(k), b.items.get(k))
    elif a.items is not None or b.items is not None:
        src = a.items if a.items is not None else b.items
        items = dict(src)
    const = a.const
    if a.const is NOCONST or b.const is NOCONST:
        const = NOCONST
    else:
        try:
            same = (type(a.const) is type(b.const)) and a.const == b.const
        except Exception:
            same = False
        if not same:
            const = NOCONST
    ckw = None
    if a.ckw is not None and b.ckw is not None:
        ckw = join(a.ckw, b.ckw)
    else:
        ckw = a.ckw if a.ckw is not None else b.ckw
    return AV(
        origins=a.origins | b.origins,
        deps=a.deps | b.deps,
        const=const,
        elts=elts,
        cls=a.cls | b.cls,
        ref=a.ref | b.ref,
        items=items,
        must_keys=a.must_keys & b.must_keys,
        arr=a.arr or b.arr,
        ckw=ckw,
        rng=a.rng or b.rng,
        nn=a.nn and b.nn,
        eor=a.eor | b.eor,
    )


def join_env(a, b):
    if a is None:
        return b
    if b is None:
        return a
    out = {}
    for k in set(a) | set(b):
        if k in a and k in b:
            out[k] = join(a[k], b[k])
        elif k.startswith("@self."):
            # strong-update overlay known on one path only: fall back to the
            # heap (weak view of all stores), which also holds this store
            continue
        else:
            out[k] = a.get(k) or b.get(k)
    return out


def env_sig(env):
    return tuple(sorted((k, v.sig()) for k, v in env.items()))


def derived(*avs, extra=FS(), nn=False):
    d = set(extra)
    for a in avs:
        if a is not None:
            d |= a.deps
            if a.elts:
                for e in a.elts:
                    d |= e.deps
            if a.items:
                for e in a.items.values():
                    d |= e.deps
    return AV(deps=FS(d), nn=nn)


class Event:
    __slots__ = ("kind", "node", "fi", "stack", "guards", "nlocal", "data")

    def __init__(self, kind, node, frame, **data):
        self.kind = kind
        self.node = node
        self.fi = frame.fi
        self.stack = frame.stack
        self.guards = frame.all_guards()
        self.nlocal = len(frame.guards)
        self.data = data

    @property
    def loc(self):
        return f"{self.fi.file}:{getattr(self.node, 'lineno', 0)}"

    def path(self):
        out = []
        for fi, call in self.stack:
            out.append(f"{fi.qual}@{fi.file}:{getattr(call, 'lineno', 0)}")
        out.append(f"{self.fi.qual}@{self.loc}")
        return out

    def key(self):
        return (self.kind, self.fi.qual, getattr(self.node, "lineno", 0),
                getattr(self.node, "col_offset", 0), self.data.get("attr"),
                self.data.get("how"))

    def src(self):
        try:
            return ast.unparse(self.node)
        except Exception:
            return "?"


class Frame:
    def __init__(self, interp, fi, selfcls, self_av, env, stack, outer_guards,
                 closure=None):
        self.interp = interp
        self.fi = fi
        self.module = fi.module
        self.selfcls = selfcls
        self.self_av = self_av
        self.env = env
        self.stack = stack
        self.outer_guards = outer_guards
        self.guards = []
        self.rets = []
        self.closure = closure
        self.loop_stack = []

    def all_guards(self):
        return tuple(self.outer_guards) + tuple(self.guards)


class _Loop:
    def __init__(self):
        self.breaks = None
        self.continues = None


def guard_atoms(test, polarity):
    """Flatten a test into (expr, polarity) atoms that are implied."""
    if isinstance(test, ast.UnaryOp) and isinstance(test.op, ast.Not):
        return guard_atoms(test.operand, not polarity)
    if isinstance(test, ast.BoolOp):
        if isinstance(test.op, ast.And) and polarity:
            out = []
            for v in test.values:
                out += guard_atoms(v, True)
            return out
        if isinstance(test.op, ast.Or) and not polarity:
            out = []
            for v in test.values:
                out += guard_atoms(v, False)
            return out
    return [(test, polarity)]


class Interp:
    def __init__(self, project, max_depth=14, class_hints=None):
        self.p = project
        self.max_depth = max_depth
        self.heap = {}
        self.events = []
        self._seen_events = set()
        self.memo = {}
        self.diag = set()
        self.stats = {}
        # None: hasattr(self, 'a_') unknown (both branches);  'cold': false until the attribute is stored in this
        # run (first call on a fresh object);  'warm': true (every lazily created attribute exists already)
        self.hasattr_mode = None
        self._stored_now = set()
        self.class_hints = class_hints or {}
        self.heap_changed = False
        self.entity_params = ()
        self._recorders = []

    # ------------------------------------------------------------- events
    def emit(self, kind, node, frame, **data):
        ev = Event(kind, node, frame, **data)
        self._emit_ev(ev)

    def _emit_ev(self, ev):
        k = ev.key() + (tuple(id(c) for _, c in ev.stack),)
        if k in self._seen_events:
            return
        self._seen_events.add(k)
        self.events.append(ev)
        for rec in self._recorders:
            rec.append(ev)

    # --------------------------------------------------------------- heap
    def heap_read(self, root, path):
        return self.heap.get((root, path))

    def heap_write(self, root, path, av):
        old = self.heap.get((root, path))
        new = join(old, av) if old is not None else av
        if old is None or new.sig() != old.sig():
            self.heap[(root, path)] = new
            self.heap_changed = True

    # ------------------------------------------------------------- entry
    def run_entity(self, ci, fi, param_avs=None, rounds=3):
        """Analyse method `fi` of concrete class `ci` (or a module-level
        function when ci is None) as an entry point.  Parameters are bound to
        AV(origin p:<name>)."""
        self.entity_params = tuple(fi.all_param_names())
        ret = None
        for _ in range(rounds):
            self.heap_changed = False
            self.memo = {}
            self._seen_events = set()
            self.events = []
            self._stored_now = set()
            self_av = None
            if ci is not None:
                self_av = AV(origins=FS([("self", ())]), cls=FS(["P:" + ci.name]))
                self.seed_ctor_defaults(ci)
            env = {}
            for name in fi.all_param_names():
                if name == "self" and ci is not None:
                    env[name] = self_av
                    continue
                if param_avs and name in param_avs:
                    env[name] = param_avs[name]
                else:
                    env[name] = AV(origins=FS([("p:" + name, ())]))
            a = fi.node.args
            if a.kwarg and not (param_avs and a.kwarg.arg in param_avs):
                env[a.kwarg.arg] = AV(origins=FS([("p:" + a.kwarg.arg, ())]))
            frame = Frame(self, fi, ci, self_av, env, (), ())
            self.walk_body(fi.node.body, frame)
            ret = None
            for r in frame.rets:
                ret = join(ret, r)
            if not self.heap_changed:
                break
        return ret if ret is not None else FRESH

    def seed_ctor_defaults(self, ci):
        """heap[self.<p>] gets the callable default of ctor parameter p (e.g.
        cluster_algo=KMeans) so that calls through it can be resolved."""
        for k in self.p.mro(ci):
            if not isinstance(k, ClassInfo) or "__init__" not in k.methods:
                continue
            f = k.methods["__init__"]
            for pname, d in f.defaults().items():
                r = self.p.resolve_expr(k.module, d) if isinstance(
                    d, (ast.Name, ast.Attribute)) else None
                if r is None:
                    continue
                ref = None
                if r[0] == "class":
                    ref = ("cls", "P:" + r[1].name)
                elif r[0] == "func":
                    ref = ("func", r[1])
                elif r[0] == "ext":
                    ref = ("cls", "E:" + r[1])
                if ref is not None:
                    cur = self.heap.get(("self", (pname,)))
                    av = AV(ref=FS([ref]))
                    self.heap[("self", (pname,))] = join(cur, av) if cur else av

    # --------------------------------------------------------- statements
    def walk_body(self, stmts, frame):
        """Returns False when every path through `stmts` leaves (return,
        raise, break, continue)."""
        for st in stmts:
            if not self.walk_stmt(st, frame):
                return False
        return True

    def walk_stmt(self, st, frame):
        m = getattr(self, "s_" + type(st).__name__, None)
        if m is None:
            self.diag.add(f"unhandled stmt {type(st).__name__} {frame.fi.file}:{st.lineno}")
            return True
        return m(st, frame)

    def s_Pass(self, st, frame):
        return True

    s_Global = s_Nonlocal = s_Pass

    def s_Import(self, st, frame):
        for a in st.names:
            nm = a.asname or a.name.split(".")[0]
            frame.env[nm] = AV(ref=FS([("ext", a.name if a.asname else a.name.split(".")[0])]))
        return True

    def s_ImportFrom(self, st, frame):
        base = self.p._abs_module(frame.module, st.module, st.level)
        for a in st.names:
            r = self.p.resolve_symbol(base, a.name)
            frame.env[a.asname or a.name] = self.av_of_resolved(r)
        return True

    def s_Expr(self, st, frame):
        self.eval(st.value, frame)
        return True

    def s_Assert(self, st, frame):
        self.eval(st.test, frame)
        return True

    def s_Delete(self, st, frame):
        for t in st.targets:
            if isinstance(t, ast.Subscript):
                base = self.eval(t.value, frame)
                self.eval(t.slice, frame)
                self.emit("mutate", st, frame, target=base, how="del[]")
            elif isinstance(t, ast.Attribute):
                base = self.eval(t.value, frame)
                self.emit("attr_store", st, frame, base=base, attr=t.attr,
                          value=FRESH, how="del")
            elif isinstance(t, ast.Name):
                frame.env.pop(t.id, None)
        return True

    def s_Return(self, st, frame):
        v = self.eval(st.value, frame) if st.value is not None else AV(const=None)
        frame.rets.append(v)
        if not frame.stack:
            self.emit("return", st, frame, value=v)
        return False

    def s_Raise(self, st, frame):
        if st.exc is not None:
            self.eval(st.exc, frame)
        return False

    def s_Break(self, st, frame):
        if frame.loop_stack:
            lp = frame.loop_stack[-1]
            lp.breaks = join_env(lp.breaks, dict(frame.env))
        return False

    def s_Continue(self, st, frame):
        if frame.loop_stack:
            lp = frame.loop_stack[-1]
            lp.continues = join_env(lp.continues, dict(frame.env))
        return False

    def s_FunctionDef(self, st, frame):
        frame.env[st.name] = AV(ref=FS([("nested", st, frame)]))
        return True

    s_AsyncFunctionDef = s_FunctionDef

    def s_ClassDef(self, st, frame):
        frame.env[st.name] = FRESH
        return True

    def s_Assign(self, st, frame):
        v = self.eval(st.value, frame)
        for t in st.targets:
            self.assign(t, v, frame, st)
        return True

    def s_AnnAssign(self, st, frame):
        if st.value is not None:
            v = self.eval(st.value, frame)
            self.assign(st.target, v, frame, st)
        return True

    def s_AugAssign(self, st, frame):
        v = self.eval(st.value, frame)
        t = st.target
        if isinstance(t, ast.Name):
            cur = frame.env.get(t.id) or self.lookup_name(t.id, frame)
            if cur is not None and cur.arr and any(
                True for _ in cur.origins
            ):
                self.emit("mutate", st, frame, target=cur, how="aug-assign")
                frame.env[t.id] = cur.replace(deps=cur.deps | v.deps, const=NOCONST)
            else:
                nv = derived(cur, v)
                if cur is not None and cur.arr:
                    nv = nv.replace(arr=True)
                if cur is not None and cur.elts is not None and v.elts is not None \
                        and isinstance(st.op, ast.Add):
                    nv = nv.replace(elts=cur.elts + v.elts)
                frame.env[t.id] = nv
        elif isinstance(t, ast.Attribute):
            base = self.eval(t.value, frame)
            ov = frame.env.get("@self." + t.attr) if self._is_frame_self(base, frame) else None
            cur = ov if ov is not None else self.read_attr(base, t.attr)
            nv = derived(cur, v)
            self.store_attr(base, t.attr, nv, frame, st, how="aug")
        elif isinstance(t, ast.Subscript):
            base = self.eval(t.value, frame)
            self.eval(t.slice, frame)
            self.emit("mutate", st, frame, target=base, how="aug[]", value=v)
        return True

    def assign(self, t, v, frame, st):
        if isinstance(t, ast.Name):
            frame.env[t.id] = v
            if any(isinstance(d, tuple) and is_visible_root(d[0]) for d in v.deps) \
                    or "rng_state" in v.deps:
                self.emit("bind", st, frame, name=t.id, value=v, attr=t.id)
        elif isinstance(t, (ast.Tuple, ast.List)):
            n = len(t.elts)
            star = [i for i, e in enumerate(t.elts) if isinstance(e, ast.Starred)]
            if v.elts is not None and len(v.elts) == n and not star:
                for e, x in zip(t.elts, v.elts):
                    self.assign(e, x, frame, st)
            else:
                # element of an unknown sequence: may be a view of it; for a list that was filled by appends the
                # elements are the appended objects themselves
                if elem_origins(v) and not v.arr and v.eor:
                    part = AV(origins=elem_origins(v), deps=v.deps, arr=elems_are_arrays(v))
                else:
                    part = AV(origins=v.origins, deps=v.deps, arr=v.arr)
                if v.elts is not None:
                    part = None
                    for x in v.elts:
                        part = join(part, x)
                    part = part or FRESH
                for e in t.elts:
                    if isinstance(e, ast.Starred):
                        self.assign(e.value, part, frame, st)
                    else:
                        self.assign(e, part, frame, st)
        elif isinstance(t, ast.Attribute):
            base = self.eval(t.value, frame)
            self.store_attr(base, t.attr, v, frame, st)
        elif isinstance(t, ast.Subscript):
            base = self.eval(t.value, frame)
            idx = self.eval(t.slice, frame)
            self.emit("mutate", st, frame, target=base, how="[]=", value=v,
                      index=idx)
            # dict literal bookkeeping on locals
            if isinstance(t.value, ast.Name) and base.items is not None:
                nb = None
                if idx.const is not NOCONST and isinstance(idx.const, str):
                    items = dict(base.items)
                    items[idx.const] = v
                    nb = base.replace(items=items,
                                      must_keys=base.must_keys | {idx.const},
                                      deps=base.deps | v.deps)
                else:
                    nb = base.replace(deps=base.deps | v.deps | idx.deps)
                frame.env[t.value.id] = nb
            elif isinstance(t.value, ast.Name) and t.value.id in frame.env:
                frame.env[t.value.id] = base.replace(deps=base.deps | v.deps)
        elif isinstance(t, ast.Starred):
            self.assign(t.value, v, frame, st)

    def _is_frame_self(self, base, frame):
        return frame.self_av is not None and bool(base.origins) and base.origins == frame.self_av.origins

    def store_attr(self, base, attr, v, frame, st, how="="):
        if self._is_frame_self(base, frame):
            # flow-sensitive overlay for the attributes of the frame's own
            # object (strong update); the heap keeps the weak, class-wide view
            frame.env["@self." + attr] = v
        for (root, path) in base.origins:
            self.heap_write(root, path + (attr,), v)
            self._stored_now.add((root, path + (attr,)))
        self.emit("attr_store", st, frame, base=base, attr=attr, value=v, how=how)

    def read_attr(self, base, attr):
        if attr in ("T", "real", "imag", "flat", "values", "base"):
            return AV(origins=base.origins, deps=base.deps, arr=True)
        origins = set()
        out = None
        only_obj = True
        # the cells of a constructed object receive every store made through a
        # value that carries its allocation site; the cell reached through a
        # path from self is a weak summary of ALL objects ever stored there.
        # Where an object cell exists it is the precise one.
        has_obj_cell = any(root.startswith("obj:") and self.heap.get((root, path + (attr,))) is not None
                           for (root, path) in base.origins)
        for (root, path) in base.origins:
            np_ = path + (attr,)
            if root.startswith("shallow:"):
                # field of a shallow copy: the copy's own rebinding if there is one, else (and,
                # conservatively, also) the very object the original holds in that field
                own = self.heap.get((root, np_))
                if own is not None:
                    out = join(out, own)
                    origins.add((root, np_))
                oroot = root[len("shallow:"):]
                origins.add((oroot, np_))
                h = self.heap.get((oroot, np_))
                if h is not None:
                    out = join(out, h)
                only_obj = False
                continue
            origins.add((root, np_))
            if has_obj_cell and not root.startswith("obj:"):
                continue
            h = self.heap.get((root, np_))
            if h is not None:
                out = join(out, h)
                if not root.startswith("obj:"):
                    only_obj = False
        res = AV(origins=FS(origins))
        if out is not None:
            keep = out.const
            res = join(res, out)
            if only_obj:
                # locally constructed object(s): all stores are seen
                res = res.replace(const=keep)
            else:
                res = res.replace(const=NOCONST)
        return res

    # ---- control flow
    def eval_truth(self, test, frame):
        """Tri-state truth of a test with short-circuit knowledge
        (`a or <known true>` is true even if `a` is unknown)."""
        if isinstance(test, ast.BoolOp):
            vals = [self.eval_truth(v, frame) for v in test.values]
            if isinstance(test.op, ast.And):
                if any(v is False for v in vals):
                    return False
                if all(v is True for v in vals):
                    return True
                return None
            if any(v is True for v in vals):
                return True
            if all(v is False for v in vals):
                return False
            return None
        if isinstance(test, ast.UnaryOp) and isinstance(test.op, ast.Not):
            v = self.eval_truth(test.operand, frame)
            return None if v is None else (not v)
        if self.hasattr_mode is not None and isinstance(test, ast.Call) and isinstance(test.func, ast.Name) \
                and test.func.id == "hasattr" and len(test.args) == 2 and isinstance(test.args[1], ast.Constant) \
                and isinstance(test.args[1].value, str) and test.args[1].value.endswith("_"):
            base = self.eval(test.args[0], frame)
            if base.origins and all(r == "self" or r.startswith("obj:") for (r, _) in base.origins):
                if self.hasattr_mode == "warm":
                    return True
                attr = test.args[1].value
                return any((r, pth + (attr,)) in self._stored_now for (r, pth) in base.origins)
        return self.truth(self.eval(test, frame))

    def s_If(self, st, frame):
        truth = self.eval_truth(st.test, frame)
        env0 = dict(frame.env)
        res_env = None
        alive = False
        if truth is not False:
            frame.env = dict(env0)
            self.refine(st.test, True, frame)
            frame.guards.append((st.test, True))
            ok = self.walk_body(st.body, frame)
            frame.guards.pop()
            if ok:
                res_env = join_env(res_env, frame.env)
                alive = True
        if truth is not True:
            frame.env = dict(env0)
            self.refine(st.test, False, frame)
            frame.guards.append((st.test, False))
            ok = self.walk_body(st.orelse, frame)
            frame.guards.pop()
            if ok:
                res_env = join_env(res_env, frame.env)
                alive = True
        frame.env = res_env if res_env is not None else env0
        return alive

    def truth(self, av):
        if av.const is NOCONST:
            return None
        try:
            return bool(av.const)
        except Exception:
            return None

    def refine(self, test, pol, frame):
        t = test
        p0 = pol
        while isinstance(t, ast.UnaryOp) and isinstance(t.op, ast.Not):
            t = t.operand
            p0 = not p0
        if isinstance(t, ast.BoolOp) and ((isinstance(t.op, ast.Or) and p0) or
                                          (isinstance(t.op, ast.And) and not p0)):
            # exactly one operand of unknown truth: it decides
            unknown = []
            for v in t.values:
                tv = self.truth(self.eval(v, frame))
                if tv is None:
                    unknown.append(v)
                elif tv == p0:
                    unknown = None
                    break
            if unknown is not None and len(unknown) == 1:
                self.refine(unknown[0], p0, frame)
            return
        for (e, p) in guard_atoms(test, pol):
            # isinstance(x, ProjectClass) true: x is an instance of that class from here on
            if p and isinstance(e, ast.Call) and isinstance(e.func, ast.Name) and e.func.id == "isinstance" \
                    and len(e.args) == 2 and isinstance(e.args[0], ast.Name) and e.args[0].id in frame.env:
                tav = self.eval(e.args[1], frame)
                classes = {r[1] for r in tav.ref if r[0] == "cls" and str(r[1]).startswith("P:")}
                if tav.elts:
                    classes = set()
                    allp = True
                    for x in tav.elts:
                        cs = {r[1] for r in x.ref if r[0] == "cls" and str(r[1]).startswith("P:")}
                        if not cs:
                            allp = False
                        classes |= cs
                    if not allp:
                        classes = set()
                cur = frame.env[e.args[0].id]
                if len(classes) == 1 and not cur.cls:
                    frame.env[e.args[0].id] = cur.replace(cls=FS(classes))
            if isinstance(e, ast.Compare) and len(e.ops) == 1:
                op = e.ops[0]
                l, r = e.left, e.comparators[0]
                if isinstance(l, ast.Name) and isinstance(r, ast.Constant):
                    eq = isinstance(op, (ast.Is, ast.Eq))
                    ne = isinstance(op, (ast.IsNot, ast.NotEq))
                    if (eq and p) or (ne and not p):
                        cur = frame.env.get(l.id)
                        if cur is not None:
                            if r.value is None:
                                # None has no mutable identity: drop aliases,
                                # keep provenance (who chose the None)
                                frame.env[l.id] = AV(const=None, deps=cur.deps)
                            else:
                                frame.env[l.id] = cur.replace(const=r.value)
                        else:
                            frame.env[l.id] = AV(const=r.value)
                if isinstance(l, ast.Constant) and isinstance(l.value, str) \
                        and isinstance(r, ast.Name):
                    isin = isinstance(op, ast.In)
                    notin = isinstance(op, ast.NotIn)
                    if (isin and p) or (notin and not p):
                        cur = frame.env.get(r.id)
                        if cur is not None:
                            frame.env[r.id] = cur.replace(
                                must_keys=cur.must_keys | {l.value})

    def _loop(self, st, frame, bind):
        env_in = dict(frame.env)
        lp = _Loop()
        frame.loop_stack.append(lp)
        head = env_in
        exit_env = None
        for _ in range(4):
            frame.env = dict(head)
            bind(frame)
            frame.guards.append((getattr(st, "test", None) or st, True))
            ok = self.walk_body(st.body, frame)
            frame.guards.pop()
            nxt = head
            if ok:
                nxt = join_env(nxt, frame.env)
            if lp.continues is not None:
                nxt = join_env(nxt, lp.continues)
            if env_sig(nxt) == env_sig(head):
                head = nxt
                break
            head = nxt
        frame.loop_stack.pop()
        # normal exit: from head (condition false / iterator exhausted)
        frame.env = dict(head)
        alive = True
        if isinstance(st, ast.While):
            t = self.eval_truth(st.test, frame)
            if t is True and lp.breaks is None:
                alive = False
        if st.orelse and alive:
            alive = self.walk_body(st.orelse, frame)
        exit_env = frame.env if alive else None
        if lp.breaks is not None:
            exit_env = join_env(exit_env, lp.breaks)
            alive = True
        if exit_env is not None:
            frame.env = exit_env
        return alive

    def s_For(self, st, frame):
        it = self.eval(st.iter, frame)
        elem = self.element_of(st.iter, it, frame)

        def bind(fr):
            self.assign(st.target, elem, fr, st)

        return self._loop(st, frame, bind)

    s_AsyncFor = s_For

    def s_While(self, st, frame):
        def bind(fr):
            self.eval(st.test, fr)

        return self._loop(st, frame, bind)

    def element_of(self, iter_expr, it, frame):
        """Abstract element produced by iterating `it`."""
        if isinstance(iter_expr, ast.Call) and isinstance(iter_expr.func, ast.Name):
            fn = iter_expr.func.id
            if fn == "enumerate" and iter_expr.args:
                inner = self.eval(iter_expr.args[0], frame)
                return AV(elts=(AV(), self.element_of(iter_expr.args[0], inner, frame)))
            if fn == "zip":
                parts = []
                for a in iter_expr.args:
                    parts.append(self.element_of(a, self.eval(a, frame), frame))
                return AV(elts=tuple(parts))
            if fn in ("range", "reversed", "sorted"):
                if fn == "range":
                    return AV(deps=it.deps)
        if it.elts is not None:
            part = None
            for x in it.elts:
                part = join(part, x)
            return part or FRESH
        if it.items is not None:
            return AV(deps=it.deps)
        if it.arr:
            return AV(origins=it.origins, deps=it.deps, arr=True)
        eo = elem_origins(it)
        return AV(origins=eo, deps=it.deps | eo, arr=elems_are_arrays(it))

    def s_Try(self, st, frame):
        env0 = dict(frame.env)
        ok_body = self.walk_body(st.body, frame)
        env_body = frame.env
        res = None
        alive = False
        if ok_body:
            if st.orelse:
                ok_body = self.walk_body(st.orelse, frame)
            if ok_body:
                res = join_env(res, frame.env)
                alive = True
        for h in st.handlers:
            frame.env = join_env(dict(env0), dict(env_body))
            if h.name:
                frame.env[h.name] = FRESH
            if h.type is not None:
                frame.guards.append((h, True))
            else:
                frame.guards.append((h, True))
            ok = self.walk_body(h.body, frame)
            frame.guards.pop()
            if ok:
                res = join_env(res, frame.env)
                alive = True
        frame.env = res if res is not None else join_env(env0, env_body)
        if st.finalbody:
            ok = self.walk_body(st.finalbody, frame)
            alive = alive and ok
        return alive

    s_TryStar = s_Try

    def s_With(self, st, frame):
        for item in st.items:
            v = self.eval(item.context_expr, frame)
            if item.optional_vars is not None:
                self.assign(item.optional_vars, v, frame, st)
        return self.walk_body(st.body, frame)

    s_AsyncWith = s_With

    def s_Match(self, st, frame):
        self.eval(st.subject, frame)
        env0 = dict(frame.env)
        res = None
        alive = False
        for c in st.cases:
            frame.env = dict(env0)
            if self.walk_body(c.body, frame):
                res = join_env(res, frame.env)
                alive = True
        res = join_env(res, env0)
        frame.env = res
        return True

    # -------------------------------------------------------- expressions
    def eval(self, e, frame):
        if e is None:
            return FRESH
        m = getattr(self, "e_" + type(e).__name__, None)
        if m is None:
            self.diag.add(f"unhandled expr {type(e).__name__} {frame.fi.file}:{getattr(e, 'lineno', 0)}")
            return FRESH
        return m(e, frame)

    def e_Constant(self, e, frame):
        return AV(const=e.value)

    def lookup_name(self, name, frame):
        fr = frame
        while fr is not None:
            if name in fr.env:
                return fr.env[name]
            fr = fr.closure
        r = self.p.resolve_name(frame.module, name)
        if r is not None:
            return self.av_of_resolved(r)
        return None

    def av_of_resolved(self, r):
        if r is None:
            return FRESH
        if r[0] == "class":
            return AV(ref=FS([("cls", "P:" + r[1].name)]))
        if r[0] == "func":
            return AV(ref=FS([("func", r[1])]))
        if r[0] == "ext":
            tags = FS()
            if r[1] in ("numpy.random", "numpy.random.mtrand"):
                tags = FS(["global_rng"])
            return AV(ref=FS([("ext", r[1])]), deps=tags)
        if r[0] == "module":
            return AV(ref=FS([("mod", r[1].name)]))
        if r[0] == "const":
            ex = r[2]
            if isinstance(ex, ast.Constant):
                return AV(const=ex.value)
            # e.g. MISSING_LABEL = np.nan
            return AV(deps=FS([f"modconst:{ast.unparse(ex)}"]))
        return FRESH

    def e_Name(self, e, frame):
        v = self.lookup_name(e.id, frame)
        if v is not None:
            return v
        if e.id in ("True", "False", "None"):
            return AV(const={"True": True, "False": False, "None": None}[e.id])
        return AV(ref=FS([("builtin", e.id)]))

    def _sig_has(self, cav, pname):
        """Does every class `cav` may denote take constructor parameter `pname`?  None if unknown."""
        names = {r[1] for r in cav.ref if r[0] == "cls" and str(r[1]).startswith("P:")} | \
                {c for c in cav.cls if str(c).startswith("P:")}
        ext = {r[1] for r in cav.ref if r[0] == "cls" and str(r[1]).startswith("E:")} | \
              {c for c in cav.cls if str(c).startswith("E:")}
        if not names and ext and pname == "random_state" \
                and all(str(c).split(".")[-1] in EXT_DRAWING_CLASSES for c in ext):
            # every external estimator of the drawing table takes a `random_state` parameter
            return True
        cis = [self.p.classes.get(str(n)[2:]) for n in names]
        if cis and not ext and all(c is not None for c in cis):
            has = [pname in self.p.ctor_params(c) for c in cis]
            if all(has) or not any(has):
                return has[0]
        return None

    def e_Attribute(self, e, frame):
        if e.attr == "parameters" and isinstance(e.value, ast.Call) and e.value.args \
                and isinstance(e.value.func, (ast.Name, ast.Attribute)) \
                and (e.value.func.id if isinstance(e.value.func, ast.Name) else e.value.func.attr) == "signature":
            return AV(ref=FS([("sigof", self.eval(e.value.args[0], frame))]))
        # dotted external / module symbol ?
        base = self.eval(e.value, frame)
        for r in base.ref:
            if r[0] == "ext":
                dotted = f"{r[1]}.{e.attr}"
                deps = FS(["global_rng"]) if dotted in (
                    "numpy.random", "numpy.random.mtrand", "numpy.random.mtrand._rand"
                ) else FS()
                if dotted in ("numpy.nan", "numpy.NaN", "numpy.NAN"):
                    return AV(ref=FS([("ext", dotted)]), deps=FS(["nan"]))
                return AV(ref=FS([("ext", dotted)]), deps=deps | (base.deps & {"global_rng"}))
            if r[0] == "mod":
                return self.av_of_resolved(self.p.resolve_symbol(r[1], e.attr))
            if r[0] == "cls" and r[1].startswith("P:"):
                ci = self.p.classes.get(r[1][2:])
                if ci is not None:
                    f = self.p.find_method(ci, e.attr)
                    if f is not None:
                        return AV(ref=FS([("func", f)]))
        # method reference on an object (bound)
        ov = frame.env.get("@self." + e.attr) if self._is_frame_self(base, frame) else None
        if ov is not None:
            res = join(AV(origins=FS((root, path + (e.attr,)) for (root, path) in base.origins)), ov).replace(const=ov.const)
        else:
            res = self.read_attr(base, e.attr)
        # bound method refs for later calls through call_func & co.
        meths = self.methods_for(base, e.attr, frame)
        if meths or not res.origins:
            res = res.replace(ref=res.ref | FS([("bound", base, e.attr)]))
        return res

    def methods_for(self, recv, name, frame):
        out = []
        for c in recv.cls:
            if c.startswith("P:"):
                ci = self.p.classes.get(c[2:])
                if ci is not None:
                    f = self.p.find_method(ci, name)
                    if f is not None and not self._is_abstract(f):
                        out.append((ci, f))
        return out

    @staticmethod
    def _is_abstract(f):
        """an abstract method says nothing about what the concrete object does"""
        for d in f.node.decorator_list:
            if (isinstance(d, ast.Name) and d.id == "abstractmethod") or (
                    isinstance(d, ast.Attribute) and d.attr == "abstractmethod"):
                return True
        body = [st for st in f.node.body if not (isinstance(st, ast.Expr) and isinstance(st.value, ast.Constant))]
        return all(isinstance(st, (ast.Pass, ast.Raise)) for st in body) if body else True

    def e_Subscript(self, e, frame):
        base = self.eval(e.value, frame)
        idx = self.eval(e.slice, frame)
        # tuple element
        if base.elts is not None and idx.const is not NOCONST and isinstance(idx.const, int) \
                and not isinstance(idx.const, bool):
            try:
                return base.elts[idx.const]
            except IndexError:
                return FRESH
        if base.items is not None and idx.const is not NOCONST and isinstance(idx.const, str):
            if idx.const in base.items and base.items[idx.const] is not None:
                return base.items[idx.const]
        if isinstance(e.slice, ast.Slice) or (isinstance(e.slice, ast.Tuple) and self.is_basic_index(e.slice)):
            return AV(origins=base.origins, deps=base.deps | idx.deps, arr=base.arr or isinstance(e.slice, ast.Tuple),
                      eor=base.eor)
        if self.is_basic_index(e.slice) and base.arr:
            return AV(origins=base.origins, deps=base.deps | idx.deps, arr=True)
        if base.arr:
            return AV(deps=base.deps | idx.deps, arr=True)
        if base.elts is not None:
            out = None
            for x in base.elts:
                out = join(out, x)
            if out is not None:
                return out.replace(deps=out.deps | idx.deps | base.deps, const=NOCONST)
        eo = elem_origins(base)
        return AV(origins=eo, deps=base.deps | idx.deps | eo)

    def is_basic_index(self, s):
        if isinstance(s, ast.Slice):
            return True
        if isinstance(s, ast.Constant):
            return isinstance(s.value, int) or s.value is None or s.value is Ellipsis
        if isinstance(s, ast.Tuple):
            return all(self.is_basic_index(x) for x in s.elts)
        if isinstance(s, ast.UnaryOp) and isinstance(s.operand, ast.Constant):
            return True
        return False

    def e_Slice(self, e, frame):
        return derived(self.eval(e.lower, frame) if e.lower else None,
                       self.eval(e.upper, frame) if e.upper else None,
                       self.eval(e.step, frame) if e.step else None)

    def e_Starred(self, e, frame):
        return self.eval(e.value, frame)

    def e_Tuple(self, e, frame):
        elts = []
        for x in e.elts:
            v = self.eval(x, frame)
            if isinstance(x, ast.Starred) and v.elts is not None:
                elts.extend(v.elts)
            else:
                elts.append(v)
        d = set()
        eo = set()
        for v in elts:
            d |= v.deps
            eo |= v.origins
        return AV(elts=tuple(elts), deps=FS(d), eor=FS(eo), nn=True)

    e_List = e_Tuple

    def e_Set(self, e, frame):
        return derived(*[self.eval(x, frame) for x in e.elts])

    def e_Dict(self, e, frame):
        items = {}
        must = set()
        deps = set()
        known = True
        for k, v in zip(e.keys, e.values):
            vv = self.eval(v, frame)
            deps |= vv.deps
            if k is None:  # **other
                if vv.items is not None:
                    items.update(vv.items)
                    must |= vv.must_keys
                else:
                    known = True  # other keys unknown; must_keys unaffected
                continue
            kv = self.eval(k, frame)
            if kv.const is not NOCONST and isinstance(kv.const, str):
                items[kv.const] = vv
                must.add(kv.const)
            else:
                deps |= kv.deps
        return AV(items=items, must_keys=FS(must), deps=FS(deps))

    def e_BinOp(self, e, frame):
        l = self.eval(e.left, frame)
        r = self.eval(e.right, frame)
        res = derived(l, r, nn=True)
        if isinstance(e.op, ast.Add) and l.elts is not None and r.elts is not None:
            res = res.replace(elts=l.elts + r.elts)
        if l.const is not NOCONST and r.const is not NOCONST:
            try:
                if isinstance(e.op, ast.Add):
                    res = res.replace(const=l.const + r.const)
                elif isinstance(e.op, ast.Sub):
                    res = res.replace(const=l.const - r.const)
                elif isinstance(e.op, ast.Mult):
                    res = res.replace(const=l.const * r.const)
            except Exception:
                pass
        if isinstance(e.op, (ast.Mult, ast.Add)) and (l.elts is not None or r.elts is not None):
            res = res.replace(eor=elem_origins(l) | elem_origins(r) if (l.elts is not None and r.elts is not None)
                              else (elem_origins(l) if l.elts is not None else elem_origins(r)))
        return res.replace(arr=l.arr or r.arr)

    def e_UnaryOp(self, e, frame):
        v = self.eval(e.operand, frame)
        res = derived(v)
        if v.const is not NOCONST:
            try:
                if isinstance(e.op, ast.Not):
                    res = res.replace(const=not v.const)
                elif isinstance(e.op, ast.USub):
                    res = res.replace(const=-v.const)
            except Exception:
                pass
        return res

    def e_BoolOp(self, e, frame):
        vals = [self.eval(v, frame) for v in e.values]
        # value of `a or b` / `a and b` is one of the operands
        res = None
        consts = [v.const for v in vals]
        if all(c is not NOCONST for c in consts):
            try:
                cur = consts[0]
                for c in consts[1:]:
                    if isinstance(e.op, ast.Or):
                        cur = cur or c
                    else:
                        cur = cur and c
                return AV(const=cur, deps=derived(*vals).deps)
            except Exception:
                pass
        # short-circuit knowledge
        if isinstance(e.op, ast.And) and any(c is not NOCONST and not c for c in consts):
            for v in vals:
                if v.const is not NOCONST and not v.const:
                    return v
        if isinstance(e.op, ast.Or) and consts[0] is not NOCONST and consts[0]:
            return vals[0]
        for v in vals:
            res = join(res, v)
        return res.replace(const=NOCONST)

    def e_Compare(self, e, frame):
        # "p" in signature(<class>).parameters  -> decided from the constructor signature (also when
        # `signature(<class>).parameters` was bound to a local first)
        if len(e.ops) == 1 and isinstance(e.ops[0], (ast.In, ast.NotIn)) and isinstance(e.left, ast.Constant) \
                and isinstance(e.left.value, str):
            rv = self.eval(e.comparators[0], frame)
            sig = [r[1] for r in rv.ref if r[0] == "sigof"]
            if sig:
                has = self._sig_has(sig[0], e.left.value)
                if has is not None:
                    return AV(const=has if isinstance(e.ops[0], ast.In) else not has)
        l = self.eval(e.left, frame)
        rs = [self.eval(c, frame) for c in e.comparators]
        res = derived(l, *rs)
        if len(rs) == 1:
            r = rs[0]
            op = e.ops[0]
            if l.const is not NOCONST and r.const is not NOCONST:
                try:
                    a, b = l.const, r.const
                    if isinstance(op, ast.Is):
                        if a is None or b is None or isinstance(a, bool) or isinstance(b, bool):
                            res = res.replace(const=a is b)
                    elif isinstance(op, ast.IsNot):
                        if a is None or b is None or isinstance(a, bool) or isinstance(b, bool):
                            res = res.replace(const=a is not b)
                    elif isinstance(op, ast.Eq):
                        res = res.replace(const=bool(a == b))
                    elif isinstance(op, ast.NotEq):
                        res = res.replace(const=bool(a != b))
                    elif isinstance(op, ast.In):
                        res = res.replace(const=a in b)
                    elif isinstance(op, ast.NotIn):
                        res = res.replace(const=a not in b)
                except Exception:
                    pass
            elif isinstance(op, (ast.In, ast.NotIn)) and l.const is not NOCONST \
                    and r.elts is not None and all(x.const is not NOCONST for x in r.elts):
                try:
                    val = l.const in [x.const for x in r.elts]
                    res = res.replace(const=val if isinstance(op, ast.In) else not val)
                except Exception:
                    pass
            elif isinstance(op, (ast.In, ast.NotIn)) and l.const is not NOCONST \
                    and isinstance(l.const, str) and r.items is not None:
                if l.const in r.must_keys:
                    res = res.replace(const=isinstance(op, ast.In))
            elif isinstance(op, (ast.Is, ast.IsNot)) and (
                (r.const is None and self.definitely_not_none(l)) or
                (l.const is None and self.definitely_not_none(r))
            ):
                res = res.replace(const=isinstance(op, ast.IsNot))
        return res

    def definitely_not_none(self, av):
        if av.nn or (av.const is not NOCONST and av.const is not None):
            return True
        return av.const is NOCONST and (
            av.items is not None or av.elts is not None or
            (bool(av.cls) and not av.origins - FS(o for o in av.origins if o[0].startswith("obj:")))
        ) and not any(is_visible_root(o[0]) for o in av.origins)

    def e_IfExp(self, e, frame):
        t = self.eval_truth(e.test, frame)
        if t is True:
            return self.eval(e.body, frame)
        if t is False:
            return self.eval(e.orelse, frame)
        env0 = dict(frame.env)
        frame.env = dict(env0)
        self.refine(e.test, True, frame)
        frame.guards.append((e.test, True))
        a = self.eval(e.body, frame)
        frame.guards.pop()
        frame.env = dict(env0)
        self.refine(e.test, False, frame)
        frame.guards.append((e.test, False))
        b = self.eval(e.orelse, frame)
        frame.guards.pop()
        frame.env = env0
        return join(a, b)

    def e_Lambda(self, e, frame):
        return AV(ref=FS([("lambda", e, frame)]))

    def e_JoinedStr(self, e, frame):
        for v in e.values:
            if isinstance(v, ast.FormattedValue):
                self.eval(v.value, frame)
        return FRESH

    def e_FormattedValue(self, e, frame):
        self.eval(e.value, frame)
        return FRESH

    def e_NamedExpr(self, e, frame):
        v = self.eval(e.value, frame)
        self.assign(e.target, v, frame, e)
        return v

    def e_Await(self, e, frame):
        return self.eval(e.value, frame)

    def e_Yield(self, e, frame):
        if e.value is not None:
            frame.rets.append(self.eval(e.value, frame))
        return FRESH

    e_YieldFrom = e_Yield

    def _comp(self, e, frame, elts):
        saved = dict(frame.env)
        for g in e.generators:
            it = self.eval(g.iter, frame)
            self.assign(g.target, self.element_of(g.iter, it, frame), frame, e)
            for c in g.ifs:
                self.eval(c, frame)
        vals = [self.eval(x, frame) for x in elts]
        frame.env = saved
        res = derived(*vals)
        # list of views: keep alias facts (e.g. [X[i] for i in ...] is copied
        # by numpy when converted, but as a list its elements are views)
        return res

    def e_ListComp(self, e, frame):
        return self._comp(e, frame, [e.elt])

    e_SetComp = e_GeneratorExp = e_ListComp

    def e_DictComp(self, e, frame):
        return self._comp(e, frame, [e.key, e.value])

    # -------------------------------------------------------------- calls
    def e_Call(self, e, frame):
        # arguments
        args = []
        for a in e.args:
            v = self.eval(a, frame)
            if isinstance(a, ast.Starred):
                if v.elts is not None:
                    args.extend(v.elts)
                else:
                    args.append(AV(origins=v.origins, deps=v.deps))
            else:
                args.append(v)
        kwargs = {}
        star_kw = None
        for k in e.keywords:
            v = self.eval(k.value, frame)
            if k.arg is None:
                star_kw = join(star_kw, v) if star_kw is not None else v
                if v.items is not None:
                    for kk, vv in v.items.items():
                        if vv is not None and kk not in kwargs:
                            if kk not in v.must_keys:
                                # the key is set on some paths only: the callee's default applies on the others
                                vv = vv.replace(deps=vv.deps | FS(["maybe_missing_kw"]))
                            kwargs[kk] = vv
            else:
                kwargs[k.arg] = v
        f = e.func
        # super().m(...)
        if isinstance(f, ast.Attribute) and isinstance(f.value, ast.Call) and \
                isinstance(f.value.func, ast.Name) and f.value.func.id == "super":
            if frame.selfcls is not None and frame.fi.cls is not None:
                owner = frame.fi.cls
                target = None
                try:
                    target = self.p.find_method(frame.selfcls, f.attr, after=owner)
                except ValueError:
                    target = None
                if target is not None:
                    return self.call_func(target, frame.selfcls, frame.self_av,
                                          args, kwargs, star_kw, frame, e)
            return self.ext_method_call(frame.self_av or FRESH, f.attr, args, kwargs, frame, e,
                                        via_super=True)
        if isinstance(f, ast.Attribute):
            recv = self.eval(f.value, frame)
            # module / external function?
            for r in recv.ref:
                if r[0] == "ext":
                    return self.ext_func_call(f"{r[1]}.{f.attr}", args, kwargs, star_kw, frame, e,
                                              taint=recv.deps & {"global_rng"})
                if r[0] == "mod":
                    rr = self.p.resolve_symbol(r[1], f.attr)
                    return self.call_resolved(rr, args, kwargs, star_kw, frame, e)
                if r[0] == "cls" and r[1].startswith("P:"):
                    ci = self.p.classes.get(r[1][2:])
                    if ci is not None:
                        fm = self.p.find_method(ci, f.attr)
                        if fm is not None:
                            if self.is_static(fm):
                                return self.call_func(fm, None, None, args, kwargs, star_kw, frame, e)
                            # Class.method(self, ...) explicit
                            if args:
                                return self.call_func(fm, frame.selfcls if frame.selfcls and self.p.is_subclass(frame.selfcls, ci.name) else ci,
                                                      args[0], args[1:], kwargs, star_kw, frame, e)
            return self.method_call(recv, f.attr, args, kwargs, star_kw, frame, e)
        fv = self.eval(f, frame)
        out = self.call_value(fv, args, kwargs, star_kw, frame, e,
                              name=f.id if isinstance(f, ast.Name) else None)
        # check_type(x, "x", ProjectClass): from here on x is known to be an instance of that class
        if isinstance(f, ast.Name) and f.id == "check_type" and len(e.args) >= 3 and isinstance(e.args[0], ast.Name) \
                and e.args[0].id in frame.env:
            classes = set()
            for a in args[2:]:
                for r in a.ref:
                    if r[0] == "cls" and str(r[1]).startswith("P:"):
                        classes.add(r[1])
            if len(classes) == 1 and len(e.args) == 3:
                cur = frame.env[e.args[0].id]
                if not cur.cls:
                    frame.env[e.args[0].id] = cur.replace(cls=FS(classes))
        return out

    def call_value(self, fv, args, kwargs, star_kw, frame, e, name=None):
        res = None
        handled = False
        for r in sorted(fv.ref, key=lambda r: str(_refkey(r))):
            handled = True
            if r[0] == "func":
                out = self.call_func(r[1], None, None, args, kwargs, star_kw, frame, e)
            elif r[0] == "cls":
                out = self.construct(r[1], args, kwargs, star_kw, frame, e)
            elif r[0] == "ext":
                out = self.ext_func_call(r[1], args, kwargs, star_kw, frame, e,
                                         taint=fv.deps & {"global_rng"})
            elif r[0] == "nested":
                out = self.call_nested(r[1], r[2], args, kwargs, star_kw, frame, e)
            elif r[0] == "lambda":
                out = self.call_lambda(r[1], r[2], args, kwargs, frame, e)
            elif r[0] == "bound":
                out = self.method_call(r[1], r[2], args, kwargs, star_kw, frame, e)
            elif r[0] == "builtin":
                out = self.builtin_call(r[1], args, kwargs, frame, e)
            elif r[0] == "mod":
                out = FRESH
            else:
                out = FRESH
            res = join(res, out)
        if not handled:
            # calling an unknown value (a parameter that is a callable...)
            self.stats['calls_unknown_callable'] = self.stats.get('calls_unknown_callable', 0) + 1
            self.emit("call", e, frame, callee=("unknown", name), args=args, kwargs=kwargs)
            res = derived(fv, *args, *kwargs.values())
        return res

    def call_resolved(self, rr, args, kwargs, star_kw, frame, e):
        av = self.av_of_resolved(rr)
        return self.call_value(av, args, kwargs, star_kw, frame, e)

    def builtin_call(self, name, args, kwargs, frame, e):
        a0 = args[0] if args else None
        if name in ("getattr",) and len(args) >= 2 and args[1].const is not NOCONST \
                and isinstance(args[1].const, str):
            res = self.read_attr(args[0], args[1].const)
            if self.methods_for(args[0], args[1].const, frame) or not res.origins:
                res = res.replace(ref=res.ref | FS([("bound", args[0], args[1].const)]))
            if len(args) > 2:
                res = join(res, args[2])
            return res
        if name == "getattr" and len(args) >= 2:
            # unknown attribute name: a bound method of unknown name
            return AV(deps=derived(*args).deps, ref=FS([("bound", args[0], "?")]))
        if name == "setattr" and len(args) >= 3:
            attr = args[1].const if (args[1].const is not NOCONST and isinstance(args[1].const, str)) else "*"
            if attr != "*":
                self.store_attr(args[0], attr, args[2], frame, e, how="setattr")
            else:
                self.emit("attr_store", e, frame, base=args[0], attr="*", value=args[2], how="setattr")
            return AV(const=None)
        if name == "delattr" and len(args) >= 2:
            self.emit("attr_store", e, frame, base=args[0], attr=str(args[1].const), value=FRESH, how="delattr")
            return AV(const=None)
        if name == "dict":
            items = {}
            must = set()
            deps = set()
            base_items = None
            if a0 is not None:
                deps |= a0.deps
                if a0.items is not None:
                    items.update(a0.items)
                    must |= a0.must_keys
            for k, v in kwargs.items():
                items[k] = v
                must.add(k)
                deps |= v.deps
            return AV(items=items, must_keys=FS(must), deps=FS(deps))
        if name in ("list", "tuple", "sorted", "reversed", "set", "frozenset") and a0 is not None:
            return AV(elts=a0.elts if name in ("list", "tuple") else None, deps=a0.deps,
                      eor=elem_origins(a0), nn=True)
        if name in ("isinstance", "hasattr", "callable", "len", "type", "id", "print",
                    "int", "float", "str", "bool", "abs", "min", "max", "sum", "any",
                    "all", "sorted", "range", "enumerate", "zip", "set", "frozenset",
                    "round", "repr", "iter", "next", "map", "filter", "reversed",
                    "issubclass", "vars", "dir", "divmod", "pow", "hash", "format",
                    "slice", "super", "object", "NotImplementedError", "ValueError",
                    "TypeError", "KeyError", "IndexError", "AttributeError",
                    "RuntimeError", "Warning", "UserWarning", "Exception",
                    "DeprecationWarning", "FutureWarning", "RuntimeWarning", "StopIteration",
                    "bytes", "complex", "ord", "chr", "open", "input", "locals", "globals"):
            res = derived(*args, *kwargs.values(), nn=name in (
                "int", "float", "str", "bool", "len", "abs", "sum", "sorted", "range", "set", "round", "isinstance", "hasattr"))
            if name in ("int", "float", "bool", "str") and a0 is not None and a0.const is not NOCONST:
                try:
                    res = res.replace(const={"int": int, "float": float, "bool": bool, "str": str}[name](a0.const))
                except Exception:
                    pass
            if name in ("map", "filter") and args:
                # apply the callable abstractly once
                if args[0].ref and len(args) > 1:
                    el = self.element_of(None, args[1], frame)
                    self.call_value(args[0], [el], {}, None, frame, e)
            return res
        self.diag.add(f"unknown builtin {name}")
        return derived(*args, *kwargs.values())

    def call_lambda(self, node, dframe, args, kwargs, frame, e):
        if len(frame.stack) >= self.max_depth:
            return derived(*args)
        env = {}
        a = node.args
        names = [x.arg for x in a.posonlyargs + a.args]
        defaults = dict(zip(names[len(names) - len(a.defaults):], a.defaults))
        for i, n in enumerate(names):
            if i < len(args):
                env[n] = args[i]
            elif n in kwargs:
                env[n] = kwargs[n]
            elif n in defaults:
                env[n] = self.eval(defaults[n], dframe)
            else:
                env[n] = FRESH
        if a.vararg:
            env[a.vararg.arg] = AV(elts=tuple(args[len(names):]))
        fr = Frame(self, dframe.fi, dframe.selfcls, dframe.self_av, env,
                   frame.stack + ((frame.fi, e),), frame.all_guards(), closure=dframe)
        return self.eval(node.body, fr)

    def call_nested(self, node, dframe, args, kwargs, star_kw, frame, e):
        fi = FuncInfo(node.name, node, dframe.module, cls=None, parent=dframe.fi)
        fi.qual = f"{dframe.fi.qual}.<locals>.{node.name}"
        return self.call_func(fi, dframe.selfcls, None, args, kwargs, star_kw, frame, e,
                              closure=dframe)

    def bind_args(self, fi, self_av, args, kwargs, star_kw, is_method):
        a = fi.node.args
        pos = [x.arg for x in a.posonlyargs + a.args]
        env = {}
        if is_method and pos:
            env[pos[0]] = self_av
            pos = pos[1:]
        rest = []
        for i, v in enumerate(args):
            if i < len(pos):
                env[pos[i]] = v
            else:
                rest.append(v)
        kwonly = [x.arg for x in a.kwonlyargs]
        extra = {}
        defaults = fi.defaults()
        for k, v in kwargs.items():
            if (k in pos or k in kwonly):
                if k not in env:
                    if "maybe_missing_kw" in v.deps and k in defaults:
                        dv = self.eval_default(fi, defaults[k])
                        tag = FS(["maybe_default_none"]) if dv.const is None else FS()
                        v = join(v, dv).replace(deps=(v.deps - {"maybe_missing_kw"}) | dv.deps | tag, const=NOCONST)
                    env[k] = v
            else:
                extra[k] = v
        unknown_kw = star_kw is not None and star_kw.items is None
        for n in pos + kwonly:
            if n not in env:
                if unknown_kw:
                    # may come from an opaque **kwargs
                    dv = self.eval_default(fi, defaults.get(n))
                    env[n] = join(dv, AV(origins=star_kw.origins, deps=star_kw.deps)).replace(const=NOCONST)
                elif n in defaults:
                    env[n] = self.eval_default(fi, defaults[n])
                else:
                    env[n] = FRESH
        if a.vararg:
            env[a.vararg.arg] = AV(elts=tuple(rest), deps=derived(*rest).deps)
        if a.kwarg:
            deps = derived(*extra.values()).deps
            origins = FS()
            if star_kw is not None:
                deps |= star_kw.deps
                if star_kw.items is None:
                    origins = star_kw.origins
            env[a.kwarg.arg] = AV(items=dict(extra), must_keys=FS(extra), deps=deps, origins=origins)
        return env

    def eval_default(self, fi, d):
        if d is None:
            return FRESH
        if isinstance(d, ast.Constant):
            return AV(const=d.value)
        if isinstance(d, (ast.Name, ast.Attribute)):
            r = self.p.resolve_expr(fi.module, d)
            if r is not None:
                return self.av_of_resolved(r)
        if isinstance(d, ast.UnaryOp) and isinstance(d.operand, ast.Constant):
            try:
                return AV(const=-d.operand.value if isinstance(d.op, ast.USub) else d.operand.value)
            except Exception:
                return FRESH
        return FRESH

    def call_func(self, fi, selfcls, self_av, args, kwargs, star_kw, frame, e, closure=None):
        self.stats['calls_inlined_project'] = self.stats.get('calls_inlined_project', 0) + 1
        is_method = fi.cls is not None and not self.is_static(fi)
        self.emit("call", e, frame, callee=("func", fi), args=args, kwargs=kwargs,
                  self_av=self_av)
        depth = len(frame.stack)
        # one re-entry is analysed (helpers that receive a closure calling them again, e.g. nested
        # conditional expectations); the second one is cut
        n_on_stack = sum(1 for f, _ in frame.stack if f.node is fi.node) + (1 if frame.fi.node is fi.node else 0)
        if depth >= self.max_depth or n_on_stack >= 2:
            self.diag.add(f"recursion/depth cut at {fi.qual}")
            return derived(*args, *kwargs.values())
        if is_method and self_av is None:
            self_av = FRESH
        if is_method and selfcls is None:
            selfcls = fi.cls
        env = self.bind_args(fi, self_av, args, kwargs, star_kw, is_method)
        key = (id(fi.node), selfcls.name if selfcls else None,
               self_av.sig() if self_av is not None else None, env_sig(env),
               id(closure) if closure is not None else None)
        new_stack = frame.stack + ((frame.fi, e),)
        new_guards = frame.all_guards()
        if key in self.memo:
            ret, evs, old_ns, old_ng = self.memo[key]
            if evs is not None:
                for ev in evs:
                    ne = Event.__new__(Event)
                    ne.kind, ne.node, ne.fi, ne.data, ne.nlocal = ev.kind, ev.node, ev.fi, ev.data, ev.nlocal
                    ne.stack = new_stack + ev.stack[old_ns:]
                    ne.guards = tuple(new_guards) + tuple(ev.guards[old_ng:])
                    self._emit_ev(ne)
            self._clear_overlay(frame, self_av, is_method)
            return ret
        self.memo[key] = (derived(*args, *kwargs.values()), None, 0, 0)  # provisional (recursion)
        fr = Frame(self, fi, selfcls if is_method else (closure.selfcls if closure else None),
                   self_av if is_method else (closure.self_av if closure else None), env,
                   new_stack, new_guards, closure=closure)
        rec = []
        self._recorders.append(rec)
        try:
            self.walk_body(fi.node.body, fr)
        finally:
            self._recorders.pop()
        ret = None
        for r in fr.rets:
            ret = join(ret, r)
        if ret is None:
            ret = AV(const=None)
        self.memo[key] = (ret, rec, len(new_stack), len(new_guards))
        self._clear_overlay(frame, self_av, is_method)
        return ret

    def _clear_overlay(self, frame, self_av, is_method):
        """A callee working on the caller's own object may have re-assigned
        its attributes: forget the caller's flow-sensitive view."""
        if frame.self_av is None:
            return
        same = is_method and self_av is not None and (self_av.origins & frame.self_av.origins)
        passed = not is_method  # plain functions may receive self as an argument
        if same or passed:
            for k in [k for k in frame.env if k.startswith("@self.")]:
                del frame.env[k]

    def is_static(self, fi):
        for d in fi.node.decorator_list:
            if isinstance(d, ast.Name) and d.id in ("staticmethod",):
                return True
        return False

    def alloc_site(self, frame, e):
        """allocation site with one level of call-site context (objects built
        inside a helper are distinguished by who called the helper)"""
        site = f"obj:{frame.fi.file}:{e.lineno}:{e.col_offset}"
        if frame.stack:
            cf, cn = frame.stack[-1]
            site += f"@{cf.file.split('/')[-1]}:{getattr(cn, 'lineno', 0)}"
        return site

    def construct(self, cref, args, kwargs, star_kw, frame, e):
        site = self.alloc_site(frame, e)
        if cref.startswith("P:"):
            ci = self.p.classes.get(cref[2:])
            obj = AV(origins=FS([(site, ())]), cls=FS([cref]))
            self.emit("construct", e, frame, cls=cref, args=args, kwargs=kwargs, star_kw=star_kw, obj=obj)
            if ci is not None:
                init = self.p.find_method(ci, "__init__")
                if init is not None:
                    self.call_func(init, ci, obj, args, kwargs, star_kw, frame, e)
            return obj
        dotted = cref[2:]
        # external class or function reference used as a callable
        return self.ext_func_call(dotted, args, kwargs, star_kw, frame, e)

    # ---- method calls
    def method_call(self, recv, name, args, kwargs, star_kw, frame, e):
        # resolved project methods
        targets = self.methods_for(recv, name, frame)
        if not targets and recv.origins == FS([("self", ())]) and frame.selfcls is not None:
            f = self.p.find_method(frame.selfcls, name)
            if f is not None:
                targets = [(frame.selfcls, f)]
        if targets:
            res = None
            objs = [o for o in recv.origins if o[0].startswith("obj:")]
            if len(objs) > 1:
                # one call per constructed object (context splitting)
                rest = FS(o for o in recv.origins if not o[0].startswith("obj:"))
                for o in sorted(objs):
                    r1 = recv.replace(origins=rest | FS([o]), deps=(recv.deps - FS(objs)) | FS([o]))
                    for ci, f in targets:
                        res = join(res, self.call_func(f, ci, r1, args, kwargs, star_kw, frame, e))
                return res
            for ci, f in targets:
                res = join(res, self.call_func(f, ci, recv, args, kwargs, star_kw, frame, e))
            return res
        # attribute holding a callable (self.cluster_algo(...), dist_func_ ...)
        attr_val = self.read_attr(recv, name) if recv.origins else None
        if attr_val is not None and any(r[0] != "bound" for r in attr_val.ref):
            av = attr_val.replace(ref=FS(r for r in attr_val.ref if r[0] != "bound"))
            out = self.call_value(av, args, kwargs, star_kw, frame, e, name=name)
            self.emit("call", e, frame, callee=("attrcall", name), args=args, kwargs=kwargs,
                      recv=recv, star_kw=star_kw)
            return out
        return self.ext_method_call(recv, name, args, kwargs, frame, e, star_kw=star_kw)

    def ext_method_call(self, recv, name, args, kwargs, frame, e, via_super=False, star_kw=None):
        self.stats['calls_external_or_unresolved_method'] = self.stats.get('calls_external_or_unresolved_method', 0) + 1
        self.emit("call", e, frame, callee=("extmeth", name), args=args, kwargs=kwargs, recv=recv,
                  star_kw=star_kw)
        allv = [recv] + list(args) + list(kwargs.values())
        res = derived(*allv)
        if "out" in kwargs:
            self.emit("mutate", e, frame, target=kwargs["out"], how="out=")
        if name in DRAW_METHODS_STRICT or (name in DRAW_METHODS_LOOSE and recv.rng):
            self.emit("draw", e, frame, gen=recv, method=name, args=args, kwargs=kwargs)
            if name == "shuffle" and args:
                self.emit("mutate", e, frame, target=args[0], how="shuffle(arg)")
            self.emit("mutate", e, frame, target=recv, how="draw:" + name)
            return res
        # BaseEstimator.set_params(**kw): stores every (non-nested) keyword as an attribute of the
        # receiver and returns the receiver; a fresh copy (clone) gets an identity so that the stored
        # references are seen by its later fit
        if name == "set_params" and not via_super and (recv.cls or recv.origins):
            tgt = recv
            if not tgt.origins:
                tgt = tgt.replace(origins=FS([(self.alloc_site(frame, e), ())]))
            else:
                self.emit("mutate", e, frame, target=recv, how=".set_params()", args=args)
            for k, v in kwargs.items():
                if "__" not in k:
                    for (root, path) in tgt.origins:
                        self.heap_write(root, path + (k,), v)
            return tgt.replace(deps=tgt.deps | res.deps)
        # scipy.stats distributions: `.rvs(size, random_state=g)` draws from g, from the
        # distribution's own generator = numpy's global one when g is None / omitted
        if name == "rvs":
            g = kwargs.get("random_state")
            if g is None or g.const is None:
                if g is not None and any(isinstance(o, tuple) and (o[0].startswith("p:") or (o[0] == "self" and len(o[1]) == 1))
                                         for o in g.deps):
                    gen = AV(deps=g.deps | FS(["user_none"]), rng=True)
                else:
                    gen = AV(deps=FS(["global_rng"]), rng=True)
            elif "maybe_default_none" in g.deps or "maybe_missing_kw" in g.deps:
                gen = g.replace(rng=True, deps=g.deps | FS(["global_rng"]))
            else:
                gen = g.replace(rng=True)
            self.emit("draw", e, frame, gen=gen, method=name, args=args, kwargs=kwargs)
            if g is not None and g.const is not None:
                self.emit("mutate", e, frame, target=g, how="draw:" + name)
            return res
        # external estimator built with an explicit "do not copy the data" option and then fitted:
        # its fit works in place on the array it is given (KMeans(copy_x=False) centres X and adds the
        # mean back: the caller's array comes back changed in the last bits)
        if name in EXT_FIT_METHODS and recv.ckw is not None and recv.ckw.items:
            for k_ in NOCOPY_OPTIONS:
                v_ = recv.ckw.items.get(k_)
                if v_ is not None and v_.const is not True and args:
                    self.emit("mutate", e, frame, target=args[0], how=f".{name}() with {k_}=False", args=args)
        # external estimator fitted: draws from its random_state
        if name in EXT_FIT_METHODS:
            for c in recv.cls:
                if c.startswith("E:") and c.split(".")[-1] in EXT_DRAWING_CLASSES:
                    self.emit("ext_fit", e, frame, cls=c, obj=recv, method=name)
        if name in INPLACE_METHODS and not via_super:
            self.emit("mutate", e, frame, target=recv, how="." + name + "()", args=args)
            if name in ("append", "extend", "insert", "add", "appendleft") and isinstance(e.func, ast.Attribute) \
                    and isinstance(e.func.value, ast.Name) and e.func.value.id in frame.env:
                # contents now depend on the argument
                cur = frame.env[e.func.value.id]
                eo = set(cur.eor)
                for a in args:
                    eo |= a.origins if name != "extend" else elem_origins(a)
                    if (a.arr and name != "extend") or (name == "extend" and elems_are_arrays(a)):
                        eo.add(ARR_MARK)
                frame.env[e.func.value.id] = cur.replace(deps=cur.deps | derived(*args).deps, elts=None,
                                                         eor=FS(eo))
            if name in ("update", "setdefault", "pop", "clear", "popitem") and isinstance(e.func, ast.Attribute) \
                    and isinstance(e.func.value, ast.Name) and e.func.value.id in frame.env \
                    and recv.items is not None:
                cur = frame.env[e.func.value.id]
                items = dict(cur.items)
                must = set(cur.must_keys)
                if name == "setdefault" and args and args[0].const is not NOCONST and isinstance(args[0].const, str):
                    k = args[0].const
                    newv = args[1] if len(args) > 1 else AV(const=None)
                    items[k] = join(items.get(k), newv) if k not in cur.must_keys else items.get(k)
                    must.add(k)
                elif name == "update":
                    for src in list(args[:1]):
                        if src.items is not None:
                            for k, v in src.items.items():
                                items[k] = v
                            must |= src.must_keys
                    for k, v in kwargs.items():
                        items[k] = v
                        must.add(k)
                elif name == "pop" and args and args[0].const is not NOCONST:
                    items.pop(args[0].const, None)
                    must.discard(args[0].const)
                elif name in ("clear", "popitem"):
                    items = {} if name == "clear" else items
                    must = set()
                frame.env[e.func.value.id] = cur.replace(items=items, must_keys=FS(must),
                                                         deps=cur.deps | derived(*args, *kwargs.values()).deps)
        if name in ALIAS_METHODS:
            return recv.replace(deps=res.deps, const=NOCONST)
        if name == "copy":
            return AV(deps=recv.deps, items=dict(recv.items) if recv.items is not None else None,
                      must_keys=recv.must_keys, cls=recv.cls, ckw=recv.ckw, arr=recv.arr,
                      elts=recv.elts, rng=recv.rng, eor=elem_origins(recv), nn=True)
        if name == "get" and recv.items is not None and args and args[0].const is not NOCONST \
                and args[0].const in recv.items and recv.items[args[0].const] is not None:
            v = recv.items[args[0].const]
            if args[0].const not in recv.must_keys and len(args) > 1:
                v = join(v, args[1])
            return v
        if name in ("items", "values", "keys") and recv.items is not None:
            vals = [v for v in recv.items.values() if v is not None]
            return derived(recv, *vals)
        if name == "astype" and "copy" in kwargs and kwargs["copy"].const is False:
            return AV(origins=recv.origins, deps=res.deps, arr=True)
        if name == "get_state":
            return AV(deps=res.deps | FS(["rng_state"]))
        return res.replace(arr=recv.arr and name in ("astype", "flatten", "mean", "sum", "dot", "copy"))

    def ext_func_call(self, dotted, args, kwargs, star_kw, frame, e, taint=FS()):
        self.stats['calls_external_function'] = self.stats.get('calls_external_function', 0) + 1
        self.emit("call", e, frame, callee=("ext", dotted), args=args, kwargs=kwargs, star_kw=star_kw)
        allv = list(args) + list(kwargs.values())
        res = derived(*allv, extra=taint)
        a0 = args[0] if args else None
        short = dotted.split(".")[-1]
        if "out" in kwargs:
            self.emit("mutate", e, frame, target=kwargs["out"], how="out=")
        # process-global random draws
        if dotted.startswith(GLOBAL_DRAW_PREFIXES) and dotted not in GLOBAL_RNG_NONDRAW:
            first = dotted.split(".")[0]
            if first == "numpy" or dotted.startswith("random."):
                self.emit("draw", e, frame, gen=AV(deps=FS(["global_rng"])), method=short,
                          args=args, kwargs=kwargs, global_call=dotted)
                if short in ("shuffle",) and a0 is not None:
                    self.emit("mutate", e, frame, target=a0, how=dotted)
                return res.replace(deps=res.deps | {"global_rng"})
        if dotted in RNG_CTORS:
            seed = a0 if a0 is not None else kwargs.get("seed")
            if seed is None or seed.const is None:
                return AV(deps=FS(["global_rng", "os_entropy"]), rng=True)
            return AV(deps=seed.deps | (FS(["const_seed"]) if seed.const is not NOCONST else FS()), rng=True,
                      const=NOCONST)
        if dotted in ("sklearn.utils.validation.check_random_state", "sklearn.utils.check_random_state"):
            seed = a0 if a0 is not None else kwargs.get("seed")
            if seed is None:
                return FRESH
            if seed.const is None:
                if any(isinstance(o, tuple) and (o[0].startswith("p:") or (o[0] == "self" and len(o[1]) == 1))
                       for o in seed.deps):
                    # None chosen by the caller (outside the property's premise)
                    return AV(deps=seed.deps | FS(["user_none"]), rng=True, nn=True)
                return AV(deps=FS(["global_rng"]), rng=True, nn=True)
            if seed.const is not NOCONST:
                return AV(deps=FS(["const_seed"]), rng=True, nn=True)
            if "maybe_default_none" in seed.deps:
                # on some path the seed is the callee's default None: the global generator may be returned
                return seed.replace(rng=True, const=NOCONST, nn=True, deps=seed.deps | FS(["global_rng"]))
            return seed.replace(rng=True, const=NOCONST, nn=True)
        if dotted in ALIAS_FUNCS and a0 is not None:
            cp = kwargs.get("copy")
            if cp is not None and cp.const is True:
                return AV(deps=res.deps, arr=True)
            return AV(origins=a0.origins, deps=res.deps, arr=True, ref=a0.ref if short == "delayed" else FS(),
                      cls=a0.cls, elts=None)
        if dotted in ALIAS_TUPLE_FUNCS:
            return AV(elts=tuple(AV(origins=a.origins, deps=a.deps, arr=True) for a in args[:2]), deps=res.deps)
        if dotted in INPLACE_FUNCS and a0 is not None:
            self.emit("mutate", e, frame, target=a0, how=dotted)
            return res
        if dotted in FRESH_COPY_FUNCS and a0 is not None:
            if dotted == "numpy.array" and "copy" in kwargs and kwargs["copy"].const is False:
                return AV(origins=a0.origins, deps=res.deps, arr=True)
            shallow = dotted == "copy.copy"
            if shallow and a0.origins and not a0.arr and a0.elts is None and a0.items is None and not a0.rng \
                    and any(is_visible_root(r) for (r, _) in a0.origins):
                # shallow copy of an object: a new object whose fields still hold the original's objects
                return AV(origins=FS(("shallow:" + r, pth) for (r, pth) in a0.origins), deps=a0.deps, cls=a0.cls,
                          ckw=a0.ckw, nn=True)
            if a0.const is not NOCONST and isinstance(a0.const, (type(None), int, float, str, bool)) \
                    and dotted in ("copy.copy", "copy.deepcopy"):
                return AV(const=a0.const, deps=a0.deps)
            return AV(deps=a0.deps, items=dict(a0.items) if a0.items is not None else None,
                      must_keys=a0.must_keys, cls=a0.cls, ckw=a0.ckw, arr=a0.arr or dotted.startswith("numpy."),
                      elts=a0.elts if shallow else None, rng=a0.rng, nn=True,
                      eor=elem_origins(a0) if shallow else FS())
        if dotted == "functools.partial" and a0 is not None:
            return a0
        # class constructor of an external estimator (capitalised last part)
        if short[:1].isupper() and not short.isupper():
            site = self.alloc_site(frame, e)
            ckw_items = dict(kwargs)
            must = set(k.arg for k in e.keywords if k.arg is not None)
            if star_kw is not None:
                must |= star_kw.must_keys
            ckw = AV(items=ckw_items, must_keys=FS(must), deps=res.deps)
            obj = AV(origins=FS([(site, ())]), cls=FS(["E:" + dotted]), ckw=ckw)
            self.emit("construct", e, frame, cls="E:" + dotted, args=args, kwargs=kwargs,
                      star_kw=star_kw, obj=obj)
            return obj
        if dotted.startswith("numpy.") or dotted.startswith("scipy."):
            res = res.replace(arr=True)
        # callables passed to an external higher-order function are applied
        for v in allv:
            if any(r[0] in ("lambda", "nested", "func") for r in v.ref) and short in (
                "Parallel", "apply_along_axis", "vectorize", "fromfunction", "quad", "fixed_quad",
                "quad_vec", "minimize", "reduce", "expect"
            ):
                self.call_value(v.replace(ref=FS(r for r in v.ref if r[0] in ("lambda", "nested", "func"))),
                                [FRESH], {}, None, frame, e)
        return res


def selfpath_of(origin):
    root, path = origin
    return path if root == "self" else None
