#!/usr/bin/env python3
"""Entry point: python3 sa/run.py <Cxx> [--tier quick|thorough]"""
import argparse
import importlib
import os
import sys
import time
import traceback

HERE = os.path.dirname(os.path.abspath(__file__))
sys.path.insert(0, os.path.dirname(HERE))

from sa.index import Project, AnalysisError  # noqa: E402
from sa.common import Report, finish  # noqa: E402


def main():
    ap = argparse.ArgumentParser()
    ap.add_argument("prop")
    ap.add_argument("--tier", default=os.environ.get("VERIF_TIER", "quick"))
    ap.add_argument("--repo", default=None)
    args = ap.parse_args()
    tier = args.tier if args.tier in ("quick", "thorough") else "quick"
    seed = int(os.environ.get("VERIF_SEED", "0") or 0)
    t0 = time.time()
    prop = args.prop.upper()
    try:
        mod = importlib.import_module(f"sa.rules.{prop.lower()}")
        p = Project(args.repo)
        report = Report(prop)
        report.analysed["inventory"] = p.inventory()
        report.analysed["repo"] = p.root
        mod.run(p, report, tier)
        extra = None
        if tier == "thorough":
            from sa import selftest
            report.selftest = selftest.run_for(prop, mod, p)
        if os.environ.get("SA_LIST"):
            # diagnostic listing of every obligation (not part of the registered commands)
            for o in report.obligations:
                if os.environ["SA_LIST"] in ("1", "") or os.environ["SA_LIST"] in f"{o.rule} {o.entity} {o.construct}":
                    print(f"  {'ok ' if o.ok else 'BAD'} {o.rule} {o.entity} :: {o.construct} [{o.loc}] {o.detail[:160]}")
        rc = finish(report, tier, seed, t0, extra)
        return rc
    except AnalysisError as e:
        print(f"ANALYSIS-ERROR property={prop} {e}")
        return 2
    except Exception:
        traceback.print_exc()
        print(f"ANALYSIS-ERROR property={prop} internal exception (see traceback)")
        return 2


if __name__ == "__main__":
    sys.stdout.flush()
    rc = main()
    sys.stdout.flush()
    os._exit(rc)
